"""Two ABORs (or ABOR and another command) written in one piece during a transfer on AsyncPathIO (C14): the second ABOR
arrives while the cancelled worker is still closing its file in the executor; abor() cancels it a second time instead of
answering - the second ABOR gets no reply at all; 'ABOR\\r\\nPWD\\r\\n' is answered 257, 426, 226 (out of order).
Run: /venv/bin/python repro/real_double_abor.py   (exit 1 = seen)"""
import asyncio
import pathlib
import tempfile
import aioftp


async def replies(r, n, wait=3):
    out = []
    try:
        while len(out) < n:
            line = (await asyncio.wait_for(r.readline(), wait)).decode()
            if line[3:4] == " ":
                out.append(line[:3])
    except asyncio.TimeoutError:
        out.append("<nothing>")
    return out


async def attempt(tail, expect):
    with tempfile.TemporaryDirectory() as d:
        (pathlib.Path(d) / "big").write_bytes(b"x" * 3_000_000)
        server = aioftp.Server([aioftp.User(base_path=d)], path_io_factory=aioftp.AsyncPathIO)
        await server.start("127.0.0.1", 0)
        r, w = await asyncio.open_connection("127.0.0.1", server.server_port)
        await replies(r, 1)
        w.write(b"USER anonymous\r\nEPSV\r\n")
        await replies(r, 1)
        line = (await r.readline()).decode()
        port = int(line.split("|")[-2])
        dr, dw = await asyncio.open_connection("127.0.0.1", port)
        w.write(b"RETR big\r\n")
        await replies(r, 1)
        await dr.read(100000)
        w.write(b"ABOR\r\n" + tail)
        got = await replies(r, 2 + len(expect))
        dw.close(); w.close()
        await server.close()
        return got


async def main():
    bad = 0
    for tail, expect in ((b"ABOR\r\n", ["226"]), (b"PWD\r\n", ["257"])):
        got = await attempt(tail, expect)
        ok = got == ["426", "226"] + expect
        print("ABOR +", tail, "->", got, "ok" if ok else "NOT as expected " + str(["426", "226"] + expect))
        bad += not ok
    raise SystemExit(1 if bad else 0)

asyncio.run(main())
