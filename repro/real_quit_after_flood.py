"""A client floods commands without reading the replies, then sends QUIT and stays silent; socket_timeout=1 (C16/C12).
QUIT makes the dispatcher wait for the reply queue to be written; the reply writer dies on its write time-out, nobody ever
empties the queue, the dispatcher waits for ever: the session keeps its slot and its socket.
Run: /venv/bin/python repro/real_quit_after_flood.py"""
import asyncio, socket, time
import aioftp


async def main():
    server = aioftp.Server(path_io_factory=aioftp.MemoryPathIO, socket_timeout=1, idle_timeout=2, maximum_connections=1)
    await server.start("127.0.0.1", 0)
    s = socket.socket(); s.setsockopt(socket.SOL_SOCKET, socket.SO_RCVBUF, 4096)
    s.connect(("127.0.0.1", server.server_port)); s.setblocking(False)
    loop = asyncio.get_running_loop()
    await asyncio.sleep(0.1)
    line = b"X" * 50000 + b"\r\n"     # the reply to an unknown verb repeats it: few commands fill every buffer
    t0 = time.time()
    while time.time() - t0 < 60:
        try:
            await asyncio.wait_for(loop.sock_sendall(s, line * 4), 0.5)
        except asyncio.TimeoutError:
            pass
        conn = next(iter(server.connections.values()), None)
        if conn and conn.command_connection.writer.transport.get_write_buffer_size() > 65536:
            break
    try:
        await asyncio.wait_for(loop.sock_sendall(s, b"QUIT\r\n"), 0.5)
    except asyncio.TimeoutError:
        pass
    await asyncio.sleep(8)
    n = len(server.connections)
    print("sessions 8 s after QUIT (socket_timeout 1, idle_timeout 2):", n)
    r, w = await asyncio.open_connection("127.0.0.1", server.server_port)
    greet = await asyncio.wait_for(r.readline(), 3)
    print("a new client is greeted:", greet.decode().strip())
    w.close(); s.close()
    await asyncio.wait_for(server.close(), 5)
    raise SystemExit(1 if n or not greet.startswith(b"220") else 0)

asyncio.run(main())
