"""Two sessions download the same file from a MemoryPathIO server at the same time (C01): every open() of a file hands out
the one BytesIO of the node, so the two transfers share a file position and each receives only some of the blocks.
Run: /venv/bin/python repro/real_memory_concurrent_read.py"""
import asyncio, pathlib, aioftp

async def main():
    server = aioftp.Server(path_io_factory=aioftp.MemoryPathIO, write_speed_limit_per_connection=400_000)
    await server.start("127.0.0.1", 0)
    data = bytes(i % 251 for i in range(300_000))
    c0 = aioftp.Client(); await c0.connect("127.0.0.1", server.server_port); await c0.login()
    async with c0.upload_stream("/f.bin") as s:
        await s.write(data)
    async def get():
        c = aioftp.Client(); await c.connect("127.0.0.1", server.server_port); await c.login()
        out = b""
        async with c.download_stream("/f.bin") as s:
            async for b in s.iter_by_block(8192):
                out += b
        await c.quit()
        return out
    a, b = await asyncio.wait_for(asyncio.gather(get(), get()), 30)
    await c0.quit(); await server.close()
    print("downloaded", len(a), len(b), "of", len(data), "identical:", a == data, b == data)
    raise SystemExit(0 if a == data and b == data else 1)
asyncio.run(main())
