"""A limited account escapes the limits of its running transfer by sending USER for an unlimited account (C15).
Run: /venv/bin/python repro/real_user_mid_transfer.py   (exit 1 = 400 KiB under a 200 KiB/s limit arrived in well under a second)"""
import asyncio, time, aioftp
async def main():
    users=[aioftp.User("bob","pw",base_path="/",write_speed_limit_per_connection=200*1024), aioftp.User("guest",base_path="/")]
    server=aioftp.Server(users,path_io_factory=aioftp.MemoryPathIO); await server.start("127.0.0.1",0)
    async with aioftp.Client.context("127.0.0.1",server.server_port,"bob","pw") as c:
        async with c.upload_stream("foo") as s: await s.write(b"x"*400*1024)
    r,w=await asyncio.open_connection("127.0.0.1",server.server_port)
    async def rep():
        return (await r.readline()).decode().strip()
    await rep()
    for l in ("USER bob","PASS pw","TYPE I","EPSV"):
        w.write(l.encode()+b"\r\n"); x=await rep()
    port=int(x.split("|")[-2]); dr,dw=await asyncio.open_connection("127.0.0.1",port)
    w.write(b"RETR foo\r\n"); await rep()
    t0=time.monotonic(); got=0
    sent=False
    while True:
        d=await dr.read(8192)
        if not d: break
        got+=len(d)
        if got>50000 and not sent:
            sent=True; w.write(b"USER guest\r\n")
    dt=time.monotonic()-t0
    print(got, round(dt,2), "s; limit 200 KiB/s needs ~2 s")
    w.close(); await server.close()
    raise SystemExit(1 if dt<1.2 else 0)
asyncio.run(main())
