"""Real threads: AsyncPathIO (one-thread pool) and a session that ends while a thread is busy for it.
(a) open: Path.open takes 0.5 s in the thread, the peer drops its control connection after 0.2 s - the thread goes on and opens the
    file for nobody;  (b) close: the pool is busy for 0.5 s when the transfer is through, close() waits in the queue, the peer drops
    its control connection - the waiter is cancelled and (before fix 1991156) the queued close() was taken back and never ran.
Every file object opened below the server's directory is recorded; exit 1 if one of them is still open a second later."""
import asyncio, concurrent.futures, functools, pathlib, tempfile, time
import aioftp

files = []
slow_open = {"on": False}
orig_open = pathlib.Path.open


def recording_open(self, *a, **kw):
    if slow_open["on"]:
        time.sleep(0.5)
    f = orig_open(self, *a, **kw)
    files.append(f)
    return f


pathlib.Path.open = recording_open


class Pool(concurrent.futures.ThreadPoolExecutor):
    busy_before_close = False

    def submit(self, fn, *a, **kw):
        if self.busy_before_close and getattr(getattr(fn, "func", fn), "__name__", "") == "close":
            super().submit(time.sleep, 0.5)     # the one thread has something else to do first
        return super().submit(fn, *a, **kw)


async def reply(r):
    while True:
        line = await asyncio.wait_for(r.readline(), 5)
        if not line:
            return ""
        if line[3:4] == b" ":
            return line[:3].decode()


async def session(server, busy_close):
    r, w = await asyncio.open_connection("127.0.0.1", server.server_port)
    await reply(r)
    w.write(b"USER anonymous\r\n"); await reply(r)
    w.write(b"PASV\r\n")
    line = await asyncio.wait_for(r.readline(), 5)
    n = line[line.index(b"(") + 1:line.index(b")")].split(b",")
    dr, dw = await asyncio.open_connection("127.0.0.1", (int(n[4]) << 8) + int(n[5]))
    w.write(b"RETR f\r\n"); await reply(r)
    if busy_close:
        await asyncio.wait_for(dr.readexactly(1000), 5)      # the data is through: the worker is closing the file now
    await asyncio.sleep(0.2)
    w.transport.abort()
    dw.close()
    await asyncio.sleep(1.5)


async def main():
    d = tempfile.mkdtemp()
    (pathlib.Path(d) / "f").write_bytes(b"x" * 1000)
    bad = []
    for what in ("open", "close"):
        pool = Pool(max_workers=1)
        pool.busy_before_close = what == "close"
        slow_open["on"] = what == "open"
        files.clear()
        server = aioftp.Server([aioftp.User(base_path=d)], path_io_factory=functools.partial(aioftp.AsyncPathIO, executor=pool))
        await server.start("127.0.0.1", 0)
        await session(server, what == "close")
        slow_open["on"] = False
        state = [f.closed for f in files]
        print(what, ": files opened", len(files), "closed", state)
        if not files or not all(state):
            bad.append(what)
        await server.close()
        pool.shutdown(wait=True)
    if bad:
        print("file left open after the session ended during:", bad)
        raise SystemExit(1)
    print("ok")


asyncio.run(asyncio.wait_for(main(), 40))
