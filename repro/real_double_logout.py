"""Real sockets: a user manager whose notify_logout has something to await AFTER it gave the slot back (an audit record); user foo
with maximum_connections=2, two sessions attached; session 1 sends USER foo again and drops its connection 0.1 s later.
Before the fix notify_logout ran twice for that one attachment (handler cancelled inside the first call, the dispatcher's clean-up
started a second): the counter read 2 with one session still attached, later 'ValueError: Too many releases'.
Exit 1 unless exactly one logout happened.  (after a probe written by a seeding agent of round 10)"""
import asyncio, sys, aioftp

class M(aioftp.MemoryUserManager):
    delay = 0
    calls = []
    async def get_user(self, login):
        r = await super().get_user(login)
        self.calls.append(("get", r[0].name))
        return r
    async def notify_logout(self, user):
        self.calls.append(("logout-start",))
        await super().notify_logout(user)      # place given back
        try:
            await asyncio.sleep(self.delay)        # e.g. audit record written
        finally:
            self.calls.append(("logout-end",))

async def rr(reader):
    while True:
        line = await asyncio.wait_for(reader.readline(), 10)
        if not line: return ""
        if line[3:4] == b" ": return line.decode().rstrip()

async def main():
    foo = aioftp.User("foo", maximum_connections=2)
    m = M([foo])
    s = aioftp.Server(m, path_io_factory=aioftp.MemoryPathIO)
    await s.start("127.0.0.1", 0)
    h, p = s.address
    slots = m.available_connections[foo]
    r1, w1 = await asyncio.open_connection(h, p); await rr(r1)
    w1.write(b"USER foo\r\n"); print(await rr(r1))
    r2, w2 = await asyncio.open_connection(h, p); await rr(r2)
    w2.write(b"USER foo\r\n"); print(await rr(r2))
    print("value", slots.value)
    m.delay = 0.4
    w1.write(b"USER foo\r\n"); await w1.drain()
    await asyncio.sleep(0.1)
    w1.transport.abort()
    await asyncio.sleep(1)
    print("value after s1 gone (1 expected)", slots.value, m.calls)
    n = sum(1 for c in m.calls if c == ("logout-start",))
    v = slots.value
    await s.close()
    if v != 1 or n != 1:
        print("logouts for one attachment:", n); raise SystemExit(1)
    print("ok")
asyncio.run(asyncio.wait_for(main(), 20))
