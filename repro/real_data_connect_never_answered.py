"""Real sockets: a scripted server answers EPSV with a port whose accept backlog is full (connects are never answered); a client
with connection_timeout=1 and socket_timeout=1 calls list().  Before fix f9285f5 the call was still pending after 10 s (it ends
when the operating system gives up, ~2 min); now it ends with TimeoutError after about 1 s.  Exit 1 if it takes longer than 5 s."""
import asyncio, socket, time
import aioftp


async def main():
    # a listener that never accepts, its backlog filled up
    hole = socket.socket()
    hole.bind(("127.0.0.1", 0))
    hole.listen(0)
    port = hole.getsockname()[1]
    fillers = []
    for _ in range(8):
        s = socket.socket()
        s.setblocking(False)
        try:
            s.connect(("127.0.0.1", port))
        except BlockingIOError:
            pass
        fillers.append(s)
    await asyncio.sleep(0.3)

    async def handle(reader, writer):
        writer.write(b"220 hi\r\n")
        while True:
            line = await reader.readline()
            if not line:
                break
            verb = line.split()[0].upper()
            writer.write({b"USER": b"230 ok\r\n", b"TYPE": b"200 ok\r\n", b"EPSV": f"229 ok (|||{port}|)\r\n".encode(),
                          b"QUIT": b"221 bye\r\n"}.get(verb, b"502 no\r\n"))
    srv = await asyncio.start_server(handle, "127.0.0.1", 0)
    c = aioftp.Client(connection_timeout=1, socket_timeout=1)
    await c.connect("127.0.0.1", srv.sockets[0].getsockname()[1])
    await c.login()
    t0 = time.monotonic()
    try:
        await asyncio.wait_for(c.list("/"), 10)
        print("list returned")
    except asyncio.TimeoutError:
        pass
    except Exception as e:
        print("list ->", type(e).__name__)
    dt = time.monotonic() - t0
    print(f"list() ended after {dt:.1f} s")
    c.close()
    srv.close()
    for s in fillers:
        s.close()
    hole.close()
    if dt > 5:
        raise SystemExit(1)
    print("ok")


asyncio.run(main())
