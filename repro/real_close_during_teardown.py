"""Server.close() while a session is finishing on its own (C12): the dispatcher has already removed itself from
Server.connections and waits for its last tasks (here: a user manager whose notify_logout takes 0.5 s); close() does not know
it any more and returns while that dispatcher - and whatever it waits for - is still running.
Run: /venv/bin/python repro/real_close_during_teardown.py"""
import asyncio
import aioftp


class SlowLogout(aioftp.MemoryUserManager):
    async def notify_logout(self, user):
        await asyncio.sleep(0.5)
        await super().notify_logout(user)


async def main():
    server = aioftp.Server(SlowLogout([aioftp.User()]), path_io_factory=aioftp.MemoryPathIO)
    await server.start("127.0.0.1", 0)
    r, w = await asyncio.open_connection("127.0.0.1", server.server_port)
    await r.readline()
    w.write(b"USER anonymous\r\n"); await r.readline()
    w.write(b"QUIT\r\n"); await r.readline()
    await asyncio.sleep(0.05)               # the session is in its clean-up now
    await asyncio.wait_for(server.close(), 5)
    me = asyncio.current_task()
    left = sorted(t.get_coro().__qualname__ for t in asyncio.all_tasks() if t is not me and not t.done())
    print("tasks still running when close() returned:", left)
    w.close()
    raise SystemExit(1 if left else 0)

asyncio.run(main())
