"""A session is dropped by idle_timeout while its replies were never read; later Server.close() (C12, fix below).
Run: /venv/bin/python repro/real_close_after_idle.py -> "close HANGS" before the fix, "close returned" after."""
import asyncio, aioftp, socket, time
async def main():
    server = aioftp.Server(path_io_factory=aioftp.MemoryPathIO, idle_timeout=1)
    await server.start("127.0.0.1", 0)
    s = socket.socket(); s.setsockopt(socket.SOL_SOCKET, socket.SO_RCVBUF, 4096)
    s.connect(("127.0.0.1", server.server_port)); s.setblocking(False)
    loop = asyncio.get_running_loop()
    await asyncio.sleep(0.1)
    line = b"X" * 90 + b"\r\n"
    conn = None; sent = 0; t0 = time.time()
    while time.time() - t0 < 90:
        try:
            await asyncio.wait_for(loop.sock_sendall(s, line * 200), 0.5); sent += 200
        except asyncio.TimeoutError:
            pass
        conn = next(iter(server.connections.values()), None)
        if conn and conn.command_connection.writer.transport.get_write_buffer_size() > 0:
            break
    tr = conn.command_connection.writer.transport
    print("sent", sent, "write buffer", tr.get_write_buffer_size())
    await asyncio.sleep(8)
    print("sessions after idle timeout:", len(server.connections), "transport closing", tr.is_closing(), "buffer", tr.get_write_buffer_size())
    t0 = time.time()
    try:
        await asyncio.wait_for(server.close(), 3.0); print("close returned", round(time.time() - t0, 2))
    except asyncio.TimeoutError:
        print("close HANGS")
    s.close()
asyncio.run(main())
