"""Real sockets: RETR whose storage read fails d loop iterations after ABOR was parsed by the server (d = 0..9).
Before fix dc4fdcc, d = 2 gave 150, '226 nothing to abort', '451 file system error': the reply of ABOR overtook the reply of
the failed transfer (a client reads the 226 as the transfer's success).  Exit 1 if any d shows a 451 after a 226.
(after a probe written by a seeding agent of round 9)"""
import asyncio
import re

import aioftp

state = {"abor_seen": False, "delay": 0}


class RacePathIO(aioftp.MemoryPathIO):
    @aioftp.pathio.universal_exception
    async def read(self, file, *args, **kwargs):
        while not state["abor_seen"]:
            await asyncio.sleep(0)
        for _ in range(state["delay"]):
            await asyncio.sleep(0)
        raise OSError("read failed")


async def reply(reader, timeout=1):
    while True:
        try:
            line = await asyncio.wait_for(reader.readline(), timeout)
        except asyncio.TimeoutError:
            return "<no reply>"
        if not line:
            return "<closed>"
        if re.match(rb"^\d\d\d ", line):
            return line.decode().rstrip()


async def command(reader, writer, line):
    writer.write(line.encode() + b"\r\n")
    await writer.drain()
    return await reply(reader)


async def main():
    server = aioftp.Server(path_io_factory=RacePathIO)
    parse = server.parse_command

    async def spy(stream, *args):
        cmd, rest = await parse(stream, *args)
        if cmd == "abor":
            state["abor_seen"] = True
        return cmd, rest

    server.parse_command = spy
    await server.start("127.0.0.1", 0)
    reader, writer = await asyncio.open_connection("127.0.0.1", server.server_port)
    await reply(reader)
    await command(reader, writer, "USER anonymous")
    # file
    r = await command(reader, writer, "EPSV")
    port = int(re.search(r"\|\|\|(\d+)\|", r).group(1))
    dr, dw = await asyncio.open_connection("127.0.0.1", port)
    await command(reader, writer, "STOR f")
    dw.write(b"x" * 100)
    dw.close()
    await reply(reader)
    bad = []
    for d in range(0, 10):
        state["abor_seen"] = False
        state["delay"] = d
        r = await command(reader, writer, "EPSV")
        port = int(re.search(r"\|\|\|(\d+)\|", r).group(1))
        dr, dw = await asyncio.open_connection("127.0.0.1", port)
        r150 = await command(reader, writer, "RETR f")
        await asyncio.sleep(0.05)
        r1 = await command(reader, writer, "ABOR")
        r2 = await reply(reader, 0.5)
        r3 = await reply(reader, 0.3)
        print(d, "|", r150, "|", r1, "|", r2, "|", r3)
        if r1.startswith("226") and r2.startswith("451"):
            bad.append(d)
        dw.close()
    writer.close()
    await server.close()
    if bad:
        print("reply of ABOR before the 451 of the failed transfer for d =", bad)
        raise SystemExit(1)
    print("ok")


asyncio.run(asyncio.wait_for(main(), 28))
