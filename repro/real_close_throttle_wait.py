"""Server.close() while a reply waits behind a speed limit (C12): ThrottleStreamIO.wait() starts one task per
throttle and awaits them with asyncio.wait(); when the waiting coroutine (the reply writer, a transfer worker) is
cancelled, these tasks are not - they sleep on after Server.close() has returned, for as long as the limit says.
Run: /venv/bin/python repro/real_close_throttle_wait.py   (exit 1 = tasks left behind)"""
import asyncio
import aioftp


async def main():
    server = aioftp.Server(path_io_factory=aioftp.MemoryPathIO, write_speed_limit=5)
    await server.start("127.0.0.1", 0)
    reader, writer = await asyncio.open_connection("127.0.0.1", server.server_port)
    print((await reader.readline()).strip())
    writer.write(b"USER anonymous\r\nPWD\r\nSYST\r\n")      # the replies queue up behind 5 bytes per second
    await asyncio.sleep(0.5)
    before = {t for t in asyncio.all_tasks() if t is not asyncio.current_task()}
    print("tasks before close():", sorted(t.get_coro().__qualname__ for t in before))
    await asyncio.wait_for(server.close(), 5)
    await asyncio.sleep(0.2)
    left = [t for t in asyncio.all_tasks() if t is not asyncio.current_task() and not t.done()]
    print("tasks 0.2 s after close() returned:", sorted(t.get_coro().__qualname__ for t in left))
    writer.close()
    raise SystemExit(1 if left else 0)

asyncio.run(main())
