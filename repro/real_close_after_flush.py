"""Server.close() after a session whose control transport was closed with unsent replies that the peer read later (C12).
asyncio's selector transport finishes such a close through its write path, which leaves it without a loop but with
_conn_lost == 0; transport.abort() then raises AttributeError instead of being a no-op.
Run: /venv/bin/python repro/real_close_after_flush.py"""
import asyncio, socket, time
import aioftp


async def main():
    server = aioftp.Server(path_io_factory=aioftp.MemoryPathIO, idle_timeout=1)
    await server.start("127.0.0.1", 0)
    s = socket.socket(); s.setsockopt(socket.SOL_SOCKET, socket.SO_RCVBUF, 4096)
    s.connect(("127.0.0.1", server.server_port)); s.setblocking(False)
    loop = asyncio.get_running_loop()
    await asyncio.sleep(0.1)
    line = b"X" * 90 + b"\r\n"
    t0 = time.time()
    conn = None
    while time.time() - t0 < 60:
        try:
            await asyncio.wait_for(loop.sock_sendall(s, line * 200), 0.5)
        except asyncio.TimeoutError:
            pass
        conn = next(iter(server.connections.values()), None)
        if conn and conn.command_connection.writer.transport.get_write_buffer_size() > 0:
            break
    await asyncio.sleep(8)          # idle_timeout drops the session; its transport still holds unsent replies
    print("sessions:", len(server.connections))
    got = 0
    while True:                     # now the peer reads everything: the transport flushes and finishes closing
        try:
            d = await asyncio.wait_for(loop.sock_recv(s, 1 << 20), 1.0)
        except asyncio.TimeoutError:
            break
        if not d:
            break
        got += len(d)
    print("peer read", got, "bytes")
    try:
        await asyncio.wait_for(server.close(), 5)
        print("close() returned")
        rc = 0
    except Exception as e:
        print("close() raised", repr(e))
        rc = 1
    s.close()
    raise SystemExit(rc)

asyncio.run(main())
