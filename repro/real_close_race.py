import asyncio, aioftp, socket, threading, time
async def main():
    server = aioftp.Server(path_io_factory=aioftp.MemoryPathIO)
    await server.start("127.0.0.1", 0)
    port = server.server_port
    got = []
    def client():
        s = socket.create_connection(("127.0.0.1", port))
        s.settimeout(3)
        try:
            got.append(s.recv(100))
            s.sendall(b"USER anonymous\r\n"); got.append(s.recv(100))
            time.sleep(1.5)
            s.sendall(b"PWD\r\n"); got.append(s.recv(100))
        except Exception as e:
            got.append(repr(e))
        time.sleep(0.5)
        s.close()
    th = threading.Thread(target=client); th.start()
    while server.server._active_count == 0:
        await asyncio.sleep(0)
    print("accepted; connections registered:", len(server.connections))
    t0 = time.time()
    try:
        await asyncio.wait_for(server.close(), 1.0)
        print("close returned after", round(time.time()-t0,3))
    except asyncio.TimeoutError:
        print("Server.close() did not return within 1s; connections:", len(server.connections))
    await asyncio.get_running_loop().run_in_executor(None, th.join)
    print("client saw", got)
asyncio.run(main())
