"""A connection beyond the server-wide limit whose first command arrives together with the connection is refused
with 421 - and served all the same (C10): when the greeting task and the first parse_command finish in the same
wake-up of the dispatcher, the USER handler is started before the dispatcher sees the refusal and runs while the 421
waits behind the write limit: the refused peer receives '421 ...' and then '230 ...', holds the account's only slot,
and the admitted session's own USER is answered 530.  Depends on the order of a set of tasks: several attempts.
Run: /venv/bin/python repro/real_refused_session_served.py   (exit 1 = seen)"""
import asyncio
import socket
import aioftp


async def attempt():
    server = aioftp.Server([aioftp.User("a", maximum_connections=1, base_path="/")], maximum_connections=1, write_speed_limit=20,
                           path_io_factory=aioftp.MemoryPathIO)
    await server.start("127.0.0.1", 0)
    r1, w1 = await asyncio.open_connection("127.0.0.1", server.server_port)
    await r1.readline()                                   # 220: 13 bytes against 20 B/s, the next write waits ~0.65 s
    s = socket.create_connection(("127.0.0.1", server.server_port))
    s.sendall(b"USER a\r\n")                              # there before the server's loop accepts the connection
    s.setblocking(False)
    r2, w2 = await asyncio.open_connection(sock=s)
    await asyncio.sleep(0.2)
    w1.write(b"USER a\r\n")
    mine = await asyncio.wait_for(r1.readline(), 10)
    theirs = await asyncio.wait_for(r2.read(), 10)
    w1.close(); w2.close()
    await server.close()
    return mine.strip(), theirs


async def main():
    seen = 0
    for i in range(30):
        mine, theirs = await attempt()
        if not mine.startswith(b"230") or b"230" in theirs:
            seen += 1
            print(f"attempt {i}: admitted session's USER a -> {mine!r}; refused peer received {theirs!r}")
            if seen >= 2:
                break
    print("seen" if seen else "not seen", "in", i + 1, "attempts")
    raise SystemExit(1 if seen else 0)

asyncio.run(main())
