"""Real sockets: PASV, then LIST and LIST written in one piece, then ONE data connection (wait_future_timeout=1).
Before the fix both workers had waited for the same data connection: the first took it, the second found it gone
(AttributeError: 'data_connection' not in storage), the dispatcher logged "caught exception" and closed the control connection.
Now: 226 for the first, 425 for the second a second later, PWD works.  Exit 1 if the session is dropped.
(after a probe written by a seeding agent of round 11)"""
import asyncio, time, logging, sys
import aioftp

async def rl(r, t=5):
    return (await asyncio.wait_for(r.readline(), t)).decode().rstrip()

async def reply(r, t=5):
    while True:
        l = await rl(r, t)
        if len(l) >= 4 and l[:3].isdigit() and l[3] == " ":
            return l

async def main():
    logging.basicConfig(level=logging.CRITICAL)
    server = aioftp.Server(path_io_factory=aioftp.MemoryPathIO, wait_future_timeout=1, idle_timeout=20)
    await server.start("127.0.0.1", 0)
    host, port = server.address
    r, w = await asyncio.open_connection(host, port)
    print(await reply(r))
    w.write(b"USER anonymous\r\n"); print(await reply(r))
    w.write(b"PASV\r\n"); l = await reply(r); print(l)
    nums = l[l.index("(")+1:l.index(")")].split(",")
    dport = int(nums[4])*256+int(nums[5])
    # two pipelined transfer commands, ONE data connection
    w.write(b"LIST\r\nLIST\r\n")
    print(await reply(r)); print(await reply(r))
    dr, dw = await asyncio.open_connection(host, dport)
    t0 = time.monotonic()
    try:
        while True:
            l = await rl(r, 4)
            print(round(time.monotonic()-t0,2), repr(l))
            if not l:
                print("EOF on control connection: session dropped")
                break
    except asyncio.TimeoutError:
        print("no more lines")
    ok = False
    w.write(b"PWD\r\n")
    try:
        l = await rl(r, 2)
        print("PWD ->", repr(l))
        ok = l.startswith("257")
    except Exception as e:
        print("PWD failed", repr(e))
    await server.close()
    if not ok:
        raise SystemExit(1)
    print("ok")

asyncio.run(main())
