"""A catch-all (anonymous) account that has a password lets everybody in without it (C03).
Run: /venv/bin/python repro/real_anonymous_password.py   (exit 1 = served without the password)"""
import asyncio
import aioftp


async def main():
    server = aioftp.Server([aioftp.User(None, "secret", base_path="/")], path_io_factory=aioftp.MemoryPathIO)
    await server.start("127.0.0.1", 0)
    r, w = await asyncio.open_connection("127.0.0.1", server.server_port)
    print((await r.readline()).strip())
    out = []
    for line in (b"USER whoever\r\n", b"PWD\r\n", b"MKD /x\r\n"):
        w.write(line)
        out.append((await asyncio.wait_for(r.readline(), 5)).strip())
    print(out)
    w.close()
    await server.close()
    raise SystemExit(1 if out[1].startswith(b"257") else 0)

asyncio.run(main())
