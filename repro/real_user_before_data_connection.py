"""Real sockets: a limited account (write_speed_limit 100 KiB/s) sends PASV, RETR f (150) and only then USER free (331, no
password given) and connects the data port: before the fix the 400 KiB came at once (the data connection was built from the
control connection's throttles after USER had replaced them).  Exit 1 if the download is faster than the limit allows.
(after a probe written by a seeding agent of round 10)"""
import asyncio, time, pathlib, re
import aioftp

SIZE = 400 * 1024
LIMIT = 100 * 1024

async def rl(r):
    return (await asyncio.wait_for(r.readline(), 5)).decode().rstrip()

async def main():
    users = [
        aioftp.User("slow", "pw", write_speed_limit=LIMIT),
        aioftp.User("free", "secret"),
    ]
    server = aioftp.Server(users, path_io_factory=aioftp.MemoryPathIO)
    await server.start("127.0.0.1", 0)
    r, w = await asyncio.open_connection(*server.address)
    print(await rl(r))
    async def cmd(s):
        w.write((s + "\r\n").encode()); await w.drain()
        l = await rl(r); print(s, "->", l); return l
    await cmd("USER slow"); await cmd("PASS pw")
    # create file by STOR
    l = await cmd("PASV")
    nums = list(map(int, re.search(r"\(([\d,]+)\)", l).group(1).split(",")))
    port = nums[4] * 256 + nums[5]
    dr, dw = await asyncio.open_connection("127.0.0.1", port)
    await cmd("STOR f")
    dw.write(b"x" * SIZE); await dw.drain(); dw.close()
    print(await rl(r))
    # now RETR before connecting data, then USER free (no password given)
    l = await cmd("PASV")
    nums = list(map(int, re.search(r"\(([\d,]+)\)", l).group(1).split(",")))
    port = nums[4] * 256 + nums[5]
    await cmd("RETR f")
    await cmd("USER free")
    t0 = time.monotonic()
    dr, dw = await asyncio.open_connection("127.0.0.1", port)
    n = 0
    while True:
        b = await asyncio.wait_for(dr.read(65536), 20)
        if not b: break
        n += len(b)
    dt = time.monotonic() - t0
    print("got", n, "bytes in", round(dt, 2), "s; limit would need", SIZE / LIMIT, "s")
    print(await rl(r))
    w.close()
    await server.close()
    if dt < 0.8 * SIZE / LIMIT:
        print("faster than the limit allows"); raise SystemExit(1)
    print("ok")

asyncio.run(asyncio.wait_for(main(), 40))
