"""Real-socket reproduction: 'PASV' twice in one TCP segment starts two passive listeners for one session; the first
one is overwritten in the session state, never closed and its port never returned to the pool."""
import asyncio, aioftp, socket
def free_port():
    s = socket.socket(); s.bind(("127.0.0.1", 0)); p = s.getsockname()[1]; s.close(); return p
async def main():
    ports = [free_port(), free_port()]
    server = aioftp.Server(path_io_factory=aioftp.MemoryPathIO, data_ports=ports)
    await server.start("127.0.0.1", 0)
    r, w = await asyncio.open_connection("127.0.0.1", server.server_port)
    await r.readline()
    w.write(b"USER anonymous\r\n"); await r.readline()
    w.write(b"PASV\r\nPASV\r\n")
    print((await r.readline()).decode().strip()); print((await r.readline()).decode().strip())
    w.write(b"QUIT\r\n"); await r.readline(); w.close()
    await asyncio.sleep(0.2)
    print("pool after the session ended:", sorted(p for _, p in server.available_data_ports._queue), "configured:", sorted(ports))
    for p in ports:
        try:
            rr, ww = await asyncio.wait_for(asyncio.open_connection("127.0.0.1", p), 1)
            print("port", p, "is still listening although no session is left"); ww.close()
        except OSError:
            pass
    await server.close()
asyncio.run(main())
