"""Real sockets: Client(encoding="latin-1").login("alice", "sésame-ouvre-toi") against a utf-8 aioftp.Server; every log record
is inspected the way a structured log handler would: message, arguments and the exception object attached to it.
Before fix bca6f43 the ERROR record "dispatcher caught exception" carried UnicodeDecodeError('utf-8', b'PASS s\\xe9same-ouvre-toi\\r\\n',
6, 7, ...) - the whole PASS line.  Exit 1 if the plain part of the password shows up anywhere in a record."""
import asyncio, logging
import aioftp

records = []


class H(logging.Handler):
    def emit(self, r):
        records.append(" | ".join([r.getMessage(), repr(r.args), repr(r.exc_info[1]) if r.exc_info else "",
                                   logging.Formatter().formatException(r.exc_info) if r.exc_info else ""]))


logging.getLogger().addHandler(H())
logging.getLogger().setLevel(0)


async def main():
    server = aioftp.Server([aioftp.User("alice", "sésame-ouvre-toi")], path_io_factory=aioftp.MemoryPathIO)
    await server.start("127.0.0.1", 0)
    c = aioftp.Client(encoding="latin-1")
    await c.connect("127.0.0.1", server.server_port)
    try:
        await c.login("alice", "sésame-ouvre-toi")
    except Exception as e:
        print("login ->", type(e).__name__)
    c.close()
    await asyncio.sleep(0.2)
    await server.close()
    hits = [r for r in records if "same-ouvre-toi" in r]
    if hits:
        print("password in a log record:", hits[0][:300])
        raise SystemExit(1)
    print("ok")


asyncio.run(asyncio.wait_for(main(), 20))
