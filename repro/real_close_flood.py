"""Real-socket reproduction: a control peer that stops reading while its commands keep producing replies fills every
buffer; Server.close() then never returns (wait_closed() waits for the closing transport to flush)."""
import asyncio, aioftp, socket, time
async def main():
    server = aioftp.Server(path_io_factory=aioftp.MemoryPathIO)
    await server.start("127.0.0.1", 0)
    s = socket.socket(); s.setsockopt(socket.SOL_SOCKET, socket.SO_RCVBUF, 4096)
    s.connect(("127.0.0.1", server.server_port)); s.setblocking(False)
    loop = asyncio.get_running_loop()
    await asyncio.sleep(0.1)
    line = b"X" * 90 + b"\r\n"
    sent = 0
    for i in range(400):
        try:
            await asyncio.wait_for(loop.sock_sendall(s, line * 200), 0.5)   # never reads the replies
            sent += 200
        except asyncio.TimeoutError:
            break
    await asyncio.sleep(0.5)
    t0 = time.time()
    try:
        await asyncio.wait_for(server.close(), 3.0)
        print(f"sent {sent} commands; Server.close() returned after {time.time() - t0:.2f}s")
    except asyncio.TimeoutError:
        print(f"sent {sent} commands; Server.close() did not return within 3 s (peer connected, not reading)")
    s.close()
asyncio.run(main())
