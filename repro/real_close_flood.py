"""Server.close() with a client that floods commands and never reads the replies (C12, fix 7f0a147).
Run: /venv/bin/python repro/real_close_flood.py  -> prints "close HANGS" before the fix, "close returned" after."""
import asyncio, aioftp, socket, time
async def main():
    server = aioftp.Server(path_io_factory=aioftp.MemoryPathIO)
    await server.start("127.0.0.1", 0)
    s = socket.socket(); s.setsockopt(socket.SOL_SOCKET, socket.SO_RCVBUF, 4096)
    s.connect(("127.0.0.1", server.server_port)); s.setblocking(False)
    loop = asyncio.get_running_loop()
    await asyncio.sleep(0.1)
    line = b"X" * 90 + b"\r\n"
    conn = None
    sent = 0
    t0 = time.time()
    while time.time() - t0 < 90:
        try:
            await asyncio.wait_for(loop.sock_sendall(s, line * 200), 0.5); sent += 200
        except asyncio.TimeoutError:
            pass
        conn = next(iter(server.connections.values()), None)
        if conn and conn.command_connection.writer.transport.get_write_buffer_size() > 0:
            break
    print("sent", sent, "after", time.time() - t0)
    tr = conn.command_connection.writer.transport
    print("write buffer", tr.get_write_buffer_size(), "active_count", server.server._active_count)
    t0=time.time()
    try:
        await asyncio.wait_for(server.close(), 3.0); print("close returned", time.time()-t0)
    except asyncio.TimeoutError:
        print("close HANGS")
    print("active_count after", server.server._active_count, "closing", tr.is_closing(), "buf", tr.get_write_buffer_size())
    s.close()
asyncio.run(main())
