"""Real sockets: aioftp.Client.login("alice", "abc\r\nZZsecretZZ") against aioftp.Server, all log records collected.
Before fix c0fc012 the client sent the password as it was: the server took "PASS abc" (530) and handled the rest as a command
line of its own - "ZZsecretZZ" in clear in the server's log (command and 502 reply) and, with the next reply read, in the
client's.  The same way a local file named "a\r\nDELE keep" deleted the remote file "keep" while its directory was uploaded.
Exit 1 if the tail of the password shows up in any log record or the remote file is gone."""
import asyncio, logging, pathlib, tempfile
import aioftp

records = []


class H(logging.Handler):
    def emit(self, r):
        try:
            records.append(r.getMessage())
        except Exception:
            records.append(repr((r.msg, r.args)))


logging.getLogger().addHandler(H())
logging.getLogger().setLevel(0)


async def main():
    server = aioftp.Server([aioftp.User("alice", "abc"), aioftp.User()], path_io_factory=aioftp.MemoryPathIO)
    await server.start("127.0.0.1", 0)
    bad = []
    c = aioftp.Client()
    await c.connect("127.0.0.1", server.server_port)
    try:
        await c.login("alice", "abc\r\nZZsecretZZ")
        print("login accepted")
    except Exception as e:
        print("login ->", type(e).__name__, e)
    try:
        await asyncio.wait_for(c.quit(), 3)
    except Exception:
        c.close()
    if any("ZZsecretZZ".lower() in r.lower() for r in records):
        bad.append("tail of the password in the log: " + next(r for r in records if "zzsecretzz" in r.lower()))
    # the same through a file name
    with tempfile.TemporaryDirectory() as d:
        src = pathlib.Path(d) / "src"
        src.mkdir()
        (src / "a\r\nDELE keep").write_bytes(b"x")
        async with aioftp.Client.context("127.0.0.1", server.server_port) as c2:
            async with c2.upload_stream("keep") as s:
                await s.write(b"keep me")
            try:
                await c2.upload(src, "dst", write_into=True)
                print("upload returned")
            except Exception as e:
                print("upload ->", type(e).__name__, e)
        async with aioftp.Client.context("127.0.0.1", server.server_port) as c3:
            if not await c3.exists("keep"):
                bad.append("remote file 'keep' was deleted by the upload of a local file named 'a\\r\\nDELE keep'")
    await server.close()
    if bad:
        print("\n".join(bad))
        raise SystemExit(1)
    print("ok")


asyncio.run(asyncio.wait_for(main(), 30))
