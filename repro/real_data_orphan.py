"""Real-socket reproduction: a data connection accepted by the passive listener in
the iteration before the session's clean-up is stored into the dead session by the
passive handler and never closed (the peer's data socket never sees EOF)."""
import asyncio, aioftp, socket, threading, time, re
async def main():
    server = aioftp.Server(path_io_factory=aioftp.MemoryPathIO)
    await server.start("127.0.0.1", 0)
    r, w = await asyncio.open_connection("127.0.0.1", server.server_port)
    await r.readline()
    w.write(b"USER anonymous\r\nPASV\r\n"); await r.readline()
    line = (await r.readline()).decode()
    n = list(map(int, re.search(r"\((.*)\)", line).group(1).split(",")))
    dport = (n[4] << 8) | n[5]
    conn = next(iter(server.connections.values()))
    result = {}
    def data_client():
        s = socket.create_connection(("127.0.0.1", dport)); s.settimeout(2)
        try:
            result["data"] = s.recv(10)   # b"" = EOF = released
        except socket.timeout:
            result["data"] = "STILL OPEN after 2 s"
        s.close()
    th = threading.Thread(target=data_client); th.start()
    ps = conn.passive_server
    while ps._active_count == 0:
        await asyncio.sleep(0)
    w.transport.abort()           # the control connection vanishes right now
    conn._dispatcher.cancel()     # (what Server.close() / a reset does a few iterations later)
    await asyncio.get_running_loop().run_in_executor(None, th.join)
    print("session table:", len(server.connections), "peer's data socket:", result["data"])
    await asyncio.wait_for(server.close(), 2)
asyncio.run(main())
