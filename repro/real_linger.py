"""A download to a client that stops reading, socket_timeout=1: the server gives the transfer up after 1 s and closes the
data stream - but the transport has unsent bytes, the peer never reads them, so the socket (fd) of the server stays open
for as long as the peer likes (C16: a stalled peer holds a server resource beyond the configured bound).
Run: /venv/bin/python repro/real_linger.py"""
import asyncio, gc, os, socket, time
import aioftp


def server_side_sockets(port):
    out = []
    for o in gc.get_objects():
        if type(o).__name__ == "_SelectorSocketTransport":
            s = o.get_extra_info("socket")
            if s is not None and s.fileno() != -1:
                try:
                    if s.getsockname()[1] == port:
                        out.append((s.fileno(), o.is_closing(), o.get_write_buffer_size()))
                except OSError:
                    pass
    return out


async def main():
    server = aioftp.Server(path_io_factory=aioftp.MemoryPathIO, socket_timeout=1, idle_timeout=3)
    await server.start("127.0.0.1", 0)
    c = aioftp.Client()
    await c.connect("127.0.0.1", server.server_port)
    await c.login()
    async with c.upload_stream("/big.bin") as s:
        for _ in range(64):
            await s.write(b"x" * 65536)
    # raw control connection, data socket with a tiny receive buffer that is never read
    r, w = await asyncio.open_connection("127.0.0.1", server.server_port)
    await r.readline()
    w.write(b"USER anonymous\r\nEPSV\r\n"); await w.drain()
    await r.readline()
    line = (await r.readline()).decode()
    port = int(line.split("|||")[1].split("|")[0])
    d = socket.socket(); d.setsockopt(socket.SOL_SOCKET, socket.SO_RCVBUF, 4096); d.connect(("127.0.0.1", port))
    w.write(b"RETR /big.bin\r\n"); await w.drain()
    print("reply:", (await r.readline()).decode().strip())
    t0 = time.time()
    for _ in range(8):
        await asyncio.sleep(1.0)
        print(f"t={time.time() - t0:4.1f}s sessions={len(server.connections)} data sockets of the server on port {port}: {server_side_sockets(port)}")
    left = server_side_sockets(port)
    d.close(); w.close()
    await c.quit()
    await server.close()
    if left:
        print("DATA SOCKET STILL OPEN 8 s after the transfer was given up (socket_timeout=1)")
        raise SystemExit(1)
    print("data socket released")

asyncio.run(main())
