"""
NOT one of the seeded changes: behaviour of the UNCHANGED code.

Server.close() (or any end of the session) which cancels the PASV / EPSV handler
while it is inside asyncio.start_server() - at its final `await sleep(0)`, when
the listening socket is bound and serving already - leaves that passive
listener open for ever: the handler never got to `connection.passive_server =
...`, so nobody knows about it.  After close() returned the port still accepts.

The moment is hit by calling close() N event loop iterations after the command
was written (N = 8 here for PASV with Python 3.12.1; the sweep finds it).
Prints the hits, exit code 1 when a listener was left behind.
"""
import asyncio
import asyncio.base_events
import sys

import aioftp

created = []
_init = asyncio.base_events.Server.__init__


def init(self, *args, **kwargs):
    _init(self, *args, **kwargs)
    created.append(self)


asyncio.base_events.Server.__init__ = init


async def attempt(cmd, n):
    created.clear()
    server = aioftp.Server(path_io_factory=aioftp.MemoryPathIO)
    await server.start("127.0.0.1", 0)
    r, w = await asyncio.open_connection(*server.address)
    await r.readline()
    w.write(b"USER anonymous\r\n")
    await w.drain()
    await r.readline()
    w.write(cmd + b"\r\n")
    await w.drain()
    for _ in range(n):
        await asyncio.sleep(0)
    await asyncio.wait_for(server.close(), 5)
    await asyncio.sleep(0.05)
    w.close()
    hit = None
    for s in created:
        if s.is_serving():
            addr = s.sockets[0].getsockname()[:2]
            _, w2 = await asyncio.wait_for(asyncio.open_connection(*addr), 5)
            w2.close()
            hit = addr
            s.close()
    return hit


async def main():
    hits = []
    for cmd in (b"PASV", b"EPSV"):
        for n in range(0, 20):
            addr = await attempt(cmd, n)
            if addr:
                hits.append((cmd.decode(), n, addr))
    for h in hits:
        print("listener left behind after Server.close(): command %s, close() %d iterations later, %s still accepts" % h)
    return 1 if hits else 0


sys.exit(asyncio.run(asyncio.wait_for(main(), 60)))
