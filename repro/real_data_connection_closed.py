"""Real sockets: the peer closes (FIN) or resets (RST) its data connection in the middle of RETR / STOR / LIST and carries on.
Before fix d227735 (426), RETR + FIN/RST and STOR + RST made the server close the control connection without a reply
("dispatcher caught exception ... ConnectionResetError").  Exit 1 if a session is dropped."""
import asyncio, re, aioftp, socket, struct, logging
logging.basicConfig(level=logging.CRITICAL)
async def main():
    bad = []
    for mode in ("fin", "rst"):
      for verb in ("RETR", "STOR", "LIST"):
        server = aioftp.Server()
        await server.start("127.0.0.1", 0)
        r, w = await asyncio.open_connection("127.0.0.1", server.server_port)
        async def reply(t=2.0):
            while True:
                try: line = await asyncio.wait_for(r.readline(), t)
                except asyncio.TimeoutError: return "<none>"
                if not line: return "<closed>"
                if re.match(rb"^\d\d\d ", line): return line.decode().strip()
        async def cmd(c):
            w.write(c.encode()+b"\r\n"); return await reply()
        await reply()
        await cmd("USER anonymous")
        # make big file
        p = await cmd("EPSV"); port=int(re.search(r"\|\|\|(\d+)\|", p).group(1))
        dr, dw = await asyncio.open_connection("127.0.0.1", port)
        print(await cmd("STOR big"))
        dw.write(b"x"*8_000_000); await dw.drain(); dw.close(); await dw.wait_closed()
        print(await reply())
        for i in range(300): await cmd(f"MKD d{i}")
        p = await cmd("EPSV"); port=int(re.search(r"\|\|\|(\d+)\|", p).group(1))
        dr, dw = await asyncio.open_connection("127.0.0.1", port)
        first = await cmd({"RETR":"RETR big","STOR":"STOR up","LIST":"LIST"}[verb])
        if verb != "STOR":
            await dr.read(1000)
        else:
            dw.write(b"y"*1000); await dw.drain()
        sock = dw.get_extra_info("socket")
        if mode == "rst":
            sock.setsockopt(socket.SOL_SOCKET, socket.SO_LINGER, struct.pack("ii", 1, 0))
        dw.transport.abort() if mode=="rst" else dw.close()
        r2 = await reply(3)
        r3 = await cmd("PWD")
        print(mode, verb, "|", first, "|", r2, "|", r3)
        if not r3.startswith("257"):
            bad.append((mode, verb))
        w.close(); await server.close()
    if bad:
        print("session dropped:", bad); raise SystemExit(1)
    print("ok")
asyncio.run(main())
