"""Server with socket_timeout: a download whose last stretch is still unsent when the peer is slow is answered 226 and cut short (C01).
From a seeding agent. Run: /venv/bin/python repro/real_truncated_tail.py 0.2 400000 20000 70000 20000   (prints size / got per attempt)"""
import asyncio, re, sys, socket, logging, os
import aioftp

async def session(host, port):
    r, w = await asyncio.open_connection(host, port)
    async def reply():
        line = await asyncio.wait_for(r.readline(), 30)
        return line.decode().rstrip()
    await reply()
    w.write(b"USER anonymous\r\n"); await reply()
    w.write(b"PASV\r\n"); rep = await reply()
    nums = list(map(int, re.search(r"\(([\d,]+)\)", rep).group(1).split(",")))
    dr, dw = await asyncio.open_connection(host, nums[4] * 256 + nums[5])
    return r, w, reply, dr, dw

async def main(T, rate):
    logging.disable(logging.CRITICAL)
    server = aioftp.Server(path_io_factory=aioftp.MemoryPathIO, socket_timeout=T)
    await server.start("127.0.0.1", 0)
    host, port = server.address
    big = os.urandom(16 * 1024 * 1024)
    async with aioftp.Client.context(host, port) as c:
        async with c.upload_stream("big") as s:
            await s.write(big)
    # probe: how much does the server push to a peer that does not read
    r, w, reply, dr, dw = await session(host, port)
    w.write(b"RETR big\r\n"); await reply()
    await asyncio.sleep(T + 1)
    k = len(await dr.read(-1))
    print("absorbed by a silent peer:", k)
    w.close()
    for extra in range(int(sys.argv[3]), int(sys.argv[4]), int(sys.argv[5])):
        size = k + extra
        data = big[:size]
        async with aioftp.Client.context(host, port) as c:
            async with c.upload_stream("f") as s:
                await s.write(data)
        r, w, reply, dr, dw = await session(host, port)
        w.write(b"RETR f\r\n"); print(await reply())
        got = bytearray()
        while True:
            chunk = await dr.read(rate // 20)
            if not chunk:
                break
            got += chunk
            await asyncio.sleep(0.05)
        print(await reply())
        print("size", size, "got", len(got), "prefix-ok", bytes(got) == data[:len(got)])
        w.close()
    await asyncio.sleep(0.05)
    await server.close()

asyncio.run(main(float(sys.argv[1]), int(sys.argv[2])))
