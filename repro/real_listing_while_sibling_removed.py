"""Real sockets, MemoryPathIO: one session lists / (3001 directories, write limit so that the listing takes a moment), another
session removes /b_dir - the FIRST entry - meanwhile.  Before the fix the listing iterated the live list of children: the removal
shifted it and one directory that nobody touched (a_00641 in one run) was missing, with 226.
Exit 1 if one of the lister's own entries is missing.  (probe written by a seeding agent of round 11)"""
import asyncio, re, sys
import aioftp

T = 10
N = 3000

async def reply(r):
    while True:
        line = await asyncio.wait_for(r.readline(), T)
        if not line: return "<eof>"
        line = line.decode().rstrip("\r\n")
        if line[3:4] == " ": return line

async def cmd(rw, line):
    r, w = rw
    w.write(line.encode() + b"\r\n"); await w.drain()
    return await reply(r)

async def main():
    server = aioftp.Server(path_io_factory=aioftp.MemoryPathIO, wait_future_timeout=3, write_speed_limit_per_connection=100000)
    await server.start("127.0.0.1", 0)
    pio = server.path_io_factory()
    import pathlib
    # b's directories first, then a's
    await pio.mkdir(pathlib.Path("/b_dir"))
    for i in range(N):
        await pio.mkdir(pathlib.Path(f"/a_{i:05d}"))
    a = await asyncio.open_connection("127.0.0.1", server.server_port); await reply(a[0])
    b = await asyncio.open_connection("127.0.0.1", server.server_port); await reply(b[0])
    await cmd(a, "USER anonymous"); await cmd(b, "USER anonymous")
    rep = await cmd(a, "PASV")
    nums = list(map(int, re.search(r"\((.*)\)", rep).group(1).split(",")))
    port = nums[4]*256+nums[5]
    import socket
    s = socket.socket(); s.setsockopt(socket.SOL_SOCKET, socket.SO_RCVBUF, 4096)
    s.setblocking(False)
    loop = asyncio.get_running_loop()
    await loop.sock_connect(s, ("127.0.0.1", port))
    print(await cmd(a, "LIST /"))
    await asyncio.sleep(0.3)   # listing is stuck: peer does not read
    print("b:", await cmd(b, "RMD /b_dir"))
    data = b""
    while True:
        chunk = await asyncio.wait_for(loop.sock_recv(s, 65536), T)
        if not chunk: break
        data += chunk
    print(await reply(a[0]))
    names = [l.split()[-1] for l in data.decode().splitlines()]
    expected = [f"a_{i:05d}" for i in range(N)]
    mine = [n for n in names if n.startswith("a_")]
    missing = sorted(set(expected) - set(mine))
    print("lines", len(names), "own entries", len(mine), "missing", missing[:5])
    await server.close()
    return 1 if missing else 0

sys.exit(asyncio.run(asyncio.wait_for(main(), 60)))
