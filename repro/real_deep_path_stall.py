"""One command line below the 64 KiB stream limit whose path has tens of thousands of components keeps the server's
event loop - every session - busy for many seconds (C19).  Run: /venv/bin/python repro/real_deep_path_stall.py
(exit 1 = a bystander's NOOP took more than 3 s while the line was being handled)"""
import asyncio
import time
import aioftp


async def main():
    server = aioftp.Server(path_io_factory=aioftp.MemoryPathIO)
    await server.start("127.0.0.1", 0)
    r1, w1 = await asyncio.open_connection("127.0.0.1", server.server_port)
    r2, w2 = await asyncio.open_connection("127.0.0.1", server.server_port)
    for r, w in ((r1, w1), (r2, w2)):
        await r.readline()
        w.write(b"USER anonymous\r\n")
        await r.readline()
    w1.write(b"CWD " + b"a/" * 32000 + b"\r\n")
    await asyncio.sleep(0.05)
    t0 = time.monotonic()
    w2.write(b"NOOP\r\n")
    await r2.readline()
    waited = time.monotonic() - t0
    print(f"bystander's NOOP answered after {waited:.2f} s;", (await r1.readline()).strip())
    w1.close(); w2.close()
    await server.close()
    raise SystemExit(1 if waited > 3 else 0)

asyncio.run(main())
