"""A restart offset survives a transfer command that is refused before its handler looks at the offset (C05, C01).
REST 3 / RETR missing -> 550 / RETR f (same, still unused data connection) delivers the file from byte 3;
REST 5 / STOR ro/x -> 550 / STOR f writes into the middle of f without truncating it.
Run: /venv/bin/python repro/real_rest_after_refused_transfer.py   (exit 1 = the offset was applied to the later transfer)"""
import asyncio
import aioftp


async def reply(r):
    while True:
        line = (await asyncio.wait_for(r.readline(), 5)).decode()
        if line[3:4] == " ":
            return line.strip()


async def main():
    users = [aioftp.User(base_path="/", permissions=[aioftp.Permission("/"), aioftp.Permission("/ro", writable=False)])]
    server = aioftp.Server(users, path_io_factory=aioftp.MemoryPathIO)
    await server.start("127.0.0.1", 0)
    r, w = await asyncio.open_connection("127.0.0.1", server.server_port)
    await reply(r)
    bad = 0

    async def cmd(line):
        w.write(line.encode() + b"\r\n")
        return await reply(r)

    async def data_connection():
        port = int((await cmd("EPSV")).split("|")[-2])
        return await asyncio.open_connection("127.0.0.1", port)
    await cmd("USER anonymous")
    await cmd("MKD /ro")
    dr, dw = await data_connection()
    await cmd("STOR /f")
    dw.write(b"0123456789"); dw.close()
    await reply(r)
    # download
    dr, dw = await data_connection()
    print(await cmd("REST 3"), "|", await cmd("RETR /missing"), "|", await cmd("RETR /f"))
    got = await asyncio.wait_for(dr.read(), 5)
    await reply(r)
    print("RETR /f delivered", got)
    bad += got != b"0123456789"
    # upload
    dr, dw = await data_connection()
    print(await cmd("REST 5"), "|", await cmd("STOR /ro/x"), "|", await cmd("STOR /f"))
    dw.write(b"AB"); dw.close()
    await reply(r)
    dr, dw = await data_connection()
    await cmd("RETR /f")
    got = await asyncio.wait_for(dr.read(), 5)
    await reply(r)
    print("after STOR /f with b'AB' the file holds", got)
    bad += got != b"AB"
    w.close()
    await server.close()
    raise SystemExit(1 if bad else 0)

asyncio.run(main())
