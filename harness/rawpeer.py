"""A scripted FTP peer that is not aioftp (DESIGN.md 2.2).

Writes arbitrary bytes on the control channel and parses replies with its own
small RFC-959 parser.  All waits are bounded in *virtual* seconds; a wait that
expires is reported as ``None`` (no reply), never as an exception of the code
under test.
"""

import asyncio
import re

REPLY_WAIT = 60.0  # virtual seconds; far above every timeout used in a case


class Reply:
    __slots__ = ("code", "lines", "t", "raw")

    def __init__(self, code, lines, t, raw):
        self.code = code
        self.lines = lines
        self.t = t
        self.raw = raw

    def __repr__(self):
        return f"<{self.code} {self.lines!r} @{self.t:.3f}>"

    def as_json(self):
        return [self.code, self.lines]


class ProtocolGarbage(Exception):
    pass


class RawPeer:
    def __init__(self, net, port, host="127.0.0.1", name="p", encoding="utf-8"):
        self.net = net
        self.loop = net.loop
        self.host = host
        self.port = port
        self.name = name
        self.encoding = encoding
        self.reader = None
        self.writer = None
        self.transcript = []  # ("C", text) | ("S", code, lines, t) | ("X", what)
        self.data_conns = []
        self.eof = False
        self.lost = None
        self.gate = None  # when set (a never-completed future) the peer stops sending commands

    # -- control channel -----------------------------------------------------
    async def connect(self, greet=True):
        self.reader, self.writer = await asyncio.open_connection(self.host, self.port)
        self.conn = getattr(self.writer.transport, "conn", None)
        if greet:
            return await self.read_reply()

    async def _readline(self, wait):
        try:
            line = await asyncio.wait_for(self.reader.readline(), wait)
        except asyncio.TimeoutError:
            return None
        except (ConnectionError, asyncio.IncompleteReadError) as e:
            self.lost = repr(e)
            self.eof = True
            return b""
        except ValueError as e:  # line over the stream limit
            raise ProtocolGarbage(repr(e))
        if not line:
            self.eof = True
        return line

    async def read_reply(self, wait=REPLY_WAIT):
        """One complete reply, or None when nothing (complete) arrives within
        ``wait`` virtual seconds, or "EOF" when the server closed instead."""
        raw = []
        first = await self._readline(wait)
        if first is None:
            self.transcript.append(("X", "timeout"))
            return None
        if first == b"":
            self.transcript.append(("X", "eof"))
            return "EOF"
        raw.append(first)
        s = first.decode(self.encoding, "replace").rstrip("\r\n")
        m = re.match(r"^(\d\d\d)([ -])(.*)$", s)
        if not m:
            if re.match(r"^\d\d\d$", s):
                m = re.match(r"^(\d\d\d)()()$", s)
            else:
                self.transcript.append(("X", "garbage", s))
                raise ProtocolGarbage(s)
        code, sep, text = m.group(1), m.group(2), m.group(3)
        lines = [text]
        if sep == "-":
            while True:
                nxt = await self._readline(wait)
                if nxt is None:
                    self.transcript.append(("X", "timeout-in-multiline"))
                    return None
                if nxt == b"":
                    self.transcript.append(("X", "eof-in-multiline"))
                    return "EOF"
                raw.append(nxt)
                s = nxt.decode(self.encoding, "replace").rstrip("\r\n")
                if s.startswith(code + " ") or s == code:
                    lines.append(s[4:])
                    break
                lines.append(s)
        r = Reply(code, lines, self.loop.time(), b"".join(raw))
        self.transcript.append(("S", code, lines, round(r.t, 6)))
        return r

    def send(self, line):
        if isinstance(line, str):
            data = (line + "\r\n").encode(self.encoding)
            self.transcript.append(("C", line))
        else:
            data = line
            self.transcript.append(("C", repr(line)))
        self.writer.write(data)

    def freeze(self):
        """The peer goes idle: keeps its sockets, keeps reading, sends no more commands."""
        if self.gate is None:
            self.gate = self.loop.create_future()

    async def cmd(self, line, wait=REPLY_WAIT):
        if self.gate is not None:
            await self.gate
        self.send(line)
        return await self.read_reply(wait)

    async def silent(self):
        """Silence check: after network quiescence nothing unsolicited is buffered."""
        await self.net.settle()
        buf = bytes(self.reader._buffer)
        return buf == b"", buf

    def pending_bytes(self):
        return bytes(self.reader._buffer)

    # -- data channel ----------------------------------------------------------
    async def open_data(self, port, host=None):
        r, w = await asyncio.open_connection(host or self.host, port)
        self.data_conns.append((r, w))
        return r, w

    @staticmethod
    def parse_pasv(reply):
        m = re.search(r"\((\d+),(\d+),(\d+),(\d+),(\d+),(\d+)\)", " ".join(reply.lines))
        n = list(map(int, m.groups()))
        return ".".join(map(str, n[:4])), (n[4] << 8) | n[5]

    @staticmethod
    def parse_epsv(reply):
        m = re.search(r"\(\|\|\|(\d+)\|\)", " ".join(reply.lines))
        return int(m.group(1))

    async def read_data(self, reader, wait=REPLY_WAIT, limit=None):
        """Read until EOF.  Returns (bytes, status) with status in
        {"eof", "timeout", "reset"}."""
        chunks = []
        try:
            while True:
                d = await asyncio.wait_for(reader.read(65536), wait)
                if not d:
                    return b"".join(chunks), "eof"
                chunks.append(d)
                if limit is not None and sum(map(len, chunks)) >= limit:
                    return b"".join(chunks), "limit"
        except asyncio.TimeoutError:
            return b"".join(chunks), "timeout"
        except ConnectionError:
            return b"".join(chunks), "reset"

    # -- endings ---------------------------------------------------------------
    def cut(self, kind="rst", data=True, control=True):
        """The peer vanishes: RST (abort) or FIN (close) on its sockets."""
        targets = []
        if control and self.writer is not None:
            targets.append(self.writer)
        if data:
            targets += [w for _, w in self.data_conns]
        for w in targets:
            if kind == "rst":
                w.transport.abort()
            else:
                w.close()

    def close(self):
        self.cut("fin")

    def codes(self):
        return [e[1] for e in self.transcript if e[0] == "S"]

    def normalized(self):
        """Transcript with ports and timestamps removed (for equality checks)."""
        out = []
        for e in self.transcript:
            if e[0] == "S":
                lines = [re.sub(r"\(\|\|\|\d+\|\)", "(|||P|)", re.sub(r"\(\d+,\d+,\d+,\d+,\d+,\d+\)", "(H,P)", x))
                         for x in e[2]]
                out.append(["S", e[1], lines])
            elif e[0] == "C":
                out.append(["C", e[1]])
            else:
                out.append(list(e))
        return out
