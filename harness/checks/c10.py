"""C10 - connection limits are exact and slots are always returned."""

import asyncio
import random

from .. import boot  # noqa: F401
from .. import world as W
from ..corpus import Session
from ..drive import Drive
from ..runner import sig_of, rearm
import aioftp
import aioftp.server

PROPERTY = "C10"
LEVEL = "fault_enumeration"
RULE = ("2..6 concurrent raw-peer sessions with seeded schedules over {connect, USER same / other / unknown / over-limit user, "
        "PASS right / wrong, re-USER, QUIT, RST / FIN, idle (server idle_timeout in virtual time), a command whose handler "
        "raises, Server.close()}; limits 1..3 server-wide and per user, with and without an anonymous user; plus exhaustive "
        "cut enumeration (every network event, FIN and RST) of login scripts.  Oracle: shadow account from the transcripts "
        "(admitted = got 220 and still open; attached(u) = last USER answered 230/331 for u and still open): admitted <= "
        "limit at every event; at quiescence counter == limit - admitted (server-wide and per user); refusals are 421 / 530 "
        "and leave the counters unchanged; afterwards exactly `limit` fresh sessions are admitted again; AvailableConnections "
        "never raises and stays within [0, max].  distinct = distinct (limits, transcript set) signatures; non-trivial = at "
        "least one refusal or abnormal ending occurred.")
RULE += ("  " + 'Also: a server-wide write limit so that sessions end while replies are still queued behind the throttle.')
RULE += ("  " + 'Also: a re-login while a transfer of the session is in flight, then the session vanishes.')
RULE += ("  " + 'Also (round 7): peers beyond the server-wide limit whose first command(s) are in the socket buffer when the server accepts the connection (simnet early data), with and without a write limit: the refusal is one 421 and EOF, and while it is on its way an admitted session can log in to an account with limit 1.')
RULE += ("  " + 'Also (round 8): one users list in two Server objects (the second built only, or started and used): each keeps its own count.')
RULE += ("  " + 'Also (round 10): a user manager that awaits AFTER it gave the slot back (logout_after); the session is cut or the server closed at every event of a re-login (same, other, unknown account).')
ASSUMPTIONS = ["counter values are read from AvailableConnections.value (read-only); the black-box re-admission check does not "
               "depend on them", "MemoryUserManager"]
REQUIRED_MONITORS = ["blackbox_readmission", "bound_at_events"]  # counter reads and the contract use internals and are optional
ANCHOR_FUNCTIONS = ['server.py:AvailableConnections.acquire', 'server.py:AvailableConnections.release', 'server.py:Server.greeting', 'server.py:MemoryUserManager.get_user']
EXHAUSTIVE = {"quick": False, "thorough": False}


class BoomServer(aioftp.Server):
    def __init__(self, *a, **kw):
        super().__init__(*a, **kw)
        self.commands_mapping["boom"] = self.boom

    async def boom(self, connection, rest):
        raise RuntimeError("handler failure injected")


class SlowManager(aioftp.MemoryUserManager):
    """a user manager that awaits (as one backed by a database would) and can fail"""

    def __init__(self, users, delay, logout_after=0):
        super().__init__(users)
        self.delay = delay
        self.logout_after = logout_after    # seconds awaited AFTER the slot was given back (an audit record being written, say)

    async def get_user(self, login):
        await asyncio.sleep(self.delay)
        if login == "boomuser":
            raise RuntimeError("user database unavailable")
        return await super().get_user(login)

    async def notify_logout(self, user):
        await asyncio.sleep(self.delay)
        r = await super().notify_logout(user)
        if self.logout_after:
            await asyncio.sleep(self.logout_after)
        return r


def resolve_user(users, login):
    for u in users:
        if u.login == login:
            return u
    for u in users:
        if u.login is None:
            return u
    return None


async def scenario(net, hyg, plan):
    viol = []
    mon = {"counter_at_quiescence": 0, "blackbox_readmission": 0, "contract_calls": 0, "bound_at_events": 0}
    smax = plan["server_limit"]
    users = []
    if plan["anonymous"]:
        users.append(aioftp.User(None, None, base_path="/", maximum_connections=plan["ulimits"].get("anon")))
    users.append(aioftp.User("a", "pa", base_path="/", maximum_connections=plan["ulimits"].get("a")))
    users.append(aioftp.User("b", None, base_path="/", maximum_connections=plan["ulimits"].get("b")))
    w = W.World(net, users=users, tree={"/big.bin": b"B" * 400000, "/small.txt": b"s"} if plan.get("files") else None)
    um = SlowManager(users, plan["slow_manager"], plan.get("logout_after", 0)) if (plan.get("slow_manager") or plan.get("logout_after")) else users
    w.server = BoomServer(um, path_io_factory=w.factory, maximum_connections=smax, idle_timeout=plan.get("idle_timeout"),
                          write_speed_limit=plan.get("write_speed_limit"))
    AC = getattr(aioftp.server, "AvailableConnections", None)
    if AC is None or not hasattr(AC, "acquire") or not hasattr(AC, "release"):
        class AC:  # the counter class is gone: the contract is skipped, the black-box checks remain
            acquire = release = None
    orig_acq, orig_rel = AC.acquire, AC.release

    def check_value(self, what):
        # reads only; a counter that keeps its numbers under other names is simply not judged here (the monitor must
        # never raise into the code it watches)
        value, maximum = getattr(self, "value", None), getattr(self, "maximum_value", None)
        if not isinstance(value, int) or not isinstance(maximum, int):
            return
        mon["contract_calls"] += 1
        if not (0 <= value <= maximum):
            viol.append({"key": f"counter-out-of-range:{what}", "msg": f"after {what}: value {value} max {maximum}"})

    def acq(self):
        try:
            orig_acq(self)
        except Exception as e:
            viol.append({"key": "accounting-raised:acquire", "msg": repr(e)})
            raise
        finally:
            check_value(self, "acquire")

    def rel(self):
        try:
            orig_rel(self)
        except Exception as e:
            viol.append({"key": "accounting-raised:release", "msg": repr(e)})
            raise
        finally:
            check_value(self, "release")
    AC.acquire, AC.release = acq, rel
    try:
        await w.server.start("127.0.0.1", 2121)
        server = w.server
        if plan.get("files"):
            w.populate({"/big.bin": b"B" * 400000, "/small.txt": b"s"})
        d = Drive(net, w, plan["scripts"], offsets=plan.get("offsets"), cut=plan.get("cut"))

        def admitted_now():
            n = 0
            for s in d.sessions:
                codes = s.flat_codes()
                conn = getattr(s.peer, "conn", None)
                if codes[:1] == ["220"] and s.alive and conn is not None and conn.server_side.state == "open":
                    n += 1
            return n

        def hook(idx, conn, direction, kind, nbytes):
            if smax is not None:
                mon["bound_at_events"] += 1
                if admitted_now() > smax:
                    viol.append({"key": "more-sessions-admitted-than-limit",
                                 "msg": f"after event {idx}: {admitted_now()} sessions hold a 220 and are still being served, limit {smax}"})
        d.extra_hook = hook
        await d.run()
        closed_by_cut = bool(plan.get("cut")) and plan["cut"]["action"].endswith("+close") and d.cut_done
        if closed_by_cut:
            for _ in range(60):
                if d.close_task is not None:
                    break
                await asyncio.sleep(0)
            await asyncio.wait([d.close_task], timeout=10)
            d.finish_peers()
        if plan.get("close_server"):
            await asyncio.wait([asyncio.ensure_future(server.close())], timeout=10)
        # refusals must carry the right code; attachments from the transcript
        attached = {}
        any_abnormal = False
        for j, s in enumerate(d.sessions):
            script = plan["scripts"][j]
            oi = 0
            att = None
            for st, out in zip(script, s.outcomes):
                if st[0] == "connect" and out and out[0] not in ("220", "421", "CONNERR", "EOF"):
                    viol.append({"key": "greeting-code", "msg": f"session {j}: greeting {out}"})
                if st[0] == "connect" and out[:1] == ["421"]:
                    any_abnormal = True
                if st[0] == "cmd" and st[1].startswith("USER "):
                    login = st[1][5:]
                    if out[:1] in (["230"], ["331"]):
                        att = resolve_user(users, login)
                    else:
                        att = None
                        any_abnormal = True
                        if out[:1] != ["530"] and out[:1] not in (["EOF"], ["TIMEOUT"]):
                            viol.append({"key": "user-refusal-code", "msg": f"session {j}: USER {login} answered {out}"})
                if st[0] in ("cut", "sendcut") or (st[0] == "cmd" and st[1] == "boom"):
                    any_abnormal = True
            s.attached_user = att
        if plan.get("cut"):
            any_abnormal = True
        quiet = await net.quiesce(plan.get("idle_timeout") or 3.0)
        if not quiet:
            return {"inconclusive": "no quiescence"}
        live = [s for s in d.sessions if s.alive and not plan.get("close_server") and not closed_by_cut]
        # sessions are alive only if their script ended without quit/cut
        open_admitted = [s for s in live if s.flat_codes()[:1] == ["220"] and not (plan.get("idle_timeout"))]
        def read(obj):
            try:
                return obj.value
            except Exception:
                return "unreadable"
        if smax is not None and read(getattr(server, "available_connections", None)) != "unreadable":
            mon["counter_at_quiescence"] += 1
            val = server.available_connections.value
            want = smax - len(open_admitted)
            if val != want:
                viol.append({"key": "server-slot-leak" if val < want else "server-slot-double-release",
                             "msg": f"at quiescence: server counter {val}, expected {want} (limit {smax}, {len(open_admitted)} sessions open); "
                                    f"transcripts {[s.flat_codes() for s in d.sessions]}"})
        um = server.user_manager
        for u in users:
            if u.maximum_connections is None:
                continue
            try:
                val = um.available_connections[u].value
            except Exception:
                continue
            n_att = sum(1 for s in open_admitted if getattr(s, "attached_user", None) is u)
            want = u.maximum_connections - n_att
            if val != want:
                viol.append({"key": "user-slot-leak" if val < want else "user-slot-double-release",
                             "msg": f"at quiescence: counter of user {u.login!r} is {val}, expected {want} "
                                    f"(limit {u.maximum_connections}, {n_att} attached); transcripts {[s.flat_codes() for s in d.sessions]}"})
        # "Too many ..." must never be logged
        for le in hyg.logged_exceptions():
            if "Too many" in le["exc"]:
                viol.append({"key": "accounting-raised:logged", "msg": str(le)})
        # black-box: after everybody is gone the full limit is available again
        d.finish_peers()
        await net.quiesce(1.0)
        if closed_by_cut:
            # the Server object can be started again: its whole limit must be there
            await server.start("127.0.0.1", 2121)
        if not plan.get("close_server"):
            mon["blackbox_readmission"] += 1
            fresh = []
            if smax is not None:
                got = []
                for i in range(smax + 1):
                    s = Session(net, 2121, name=f"fresh{i}")
                    await s.run([["connect"]])
                    got.append(s.flat_codes()[:1])
                    fresh.append(s)
                if got != [["220"]] * smax + [["421"]]:
                    viol.append({"key": "server-slot-leak" if got.count(["220"]) < smax else "limit-not-enforced",
                                 "msg": f"after all sessions ended: {smax + 1} fresh connections were greeted {got} (limit {smax})"})
                for s in fresh:
                    s.peer.cut("fin")
                await net.quiesce(0.5)
                fresh = []
            for u in users:
                if u.maximum_connections is None or (smax is not None and u.maximum_connections >= smax):
                    continue
                got = []
                login = u.login or "whoever"
                for i in range(u.maximum_connections + 1):
                    s = Session(net, 2121, name=f"u{i}")
                    await s.run([["connect"], ["cmd", f"USER {login}"]])
                    got.append(s.flat_codes()[1:2])
                    fresh.append(s)
                ok_codes = (["230"], ["331"])
                if [g in ok_codes for g in got] != [True] * u.maximum_connections + [False] or got[-1] != ["530"]:
                    viol.append({"key": "user-slot-leak" if sum(g in ok_codes for g in got) < u.maximum_connections else "user-limit-not-enforced",
                                 "msg": f"after all sessions ended: USER {login} x{u.maximum_connections + 1} answered {got} (limit {u.maximum_connections})"})
                for s in fresh:
                    s.peer.cut("fin")
                await net.quiesce(0.5)
                fresh = []
        await w.stop()
        codes = [s.flat_codes() for s in d.sessions]
        return {"violations": viol, "monitors": mon, "nevents": len(net.events), "cut_done": d.cut_done,
                "sig": sig_of([smax, plan["ulimits"], plan["anonymous"], sorted(map(str, codes)), plan.get("cut")]),
                "nontrivial": any_abnormal, "codes": codes}
    finally:
        AC.acquire, AC.release = orig_acq, orig_rel
        w.cleanup()


async def early_scenario(net, hyg, plan):
    """The server-wide limit is used up by holder sessions; further peers connect and send their first command(s) so early
    that the bytes are there when the server's loop first looks at the connection.  Such an attempt is refused with 421, gets
    nothing else, and is not counted anywhere: while its 421 is still on its way (a write limit delays it) a holder's own
    USER for a limited account must be accepted."""
    from ..rawpeer import RawPeer
    viol = []
    mon = {"early_refused": 0, "blackbox_readmission": 0, "bound_at_events": 0}
    smax = plan["server_limit"]
    users = [aioftp.User("b", None, base_path="/", maximum_connections=1), aioftp.User("a", "pa", base_path="/", maximum_connections=1)]
    w = W.World(net, users=users)
    w.server = aioftp.Server(users, path_io_factory=w.factory, maximum_connections=smax, write_speed_limit=plan.get("write_speed_limit"))
    await w.server.start("127.0.0.1", 2121)
    try:
        holders = []
        for i in range(smax):
            h = RawPeer(net, 2121, name=f"holder{i}")
            r = await h.connect()
            if r in (None, "EOF") or r.code != "220":
                viol.append({"key": "greeting-code", "msg": f"holder {i} of {smax} greeted {r}"})
            holders.append(h)
        where = f"limit {smax}, write limit {plan.get('write_speed_limit')}, early bytes {plan['early']!r}"
        for rnd in range(plan["rounds"]):
            net.next_conn_early_data = plan["early"].encode()
            x = RawPeer(net, 2121, name=f"early{rnd}")
            await x.connect(greet=False)
            await asyncio.sleep(plan.get("gap", 0.01))
            # the refused attempt must not be counted: the admitted session's own login works at this moment
            r = await holders[0].cmd("USER b", wait=60)
            mon["bound_at_events"] += 1
            if r in (None, "EOF") or r.code != "230":
                viol.append({"key": "refused-attempt-counted", "msg": f"{where}, round {rnd}: while the early peer was being refused, the "
                                                                      f"admitted session's USER b (limit 1, nobody else attached) answered {r}"})
            got = []
            while True:
                rr = await x.read_reply(wait=90)
                if rr in (None, "EOF"):
                    got.append(str(rr))
                    break
                got.append(rr.code)
            mon["early_refused"] += 1
            if got != ["421", "EOF"]:
                viol.append({"key": "refused-attempt-served", "msg": f"{where}, round {rnd}: the peer beyond the limit received {got}, "
                                                                     f"a refusal is one 421 and the end of the connection"})
            x.cut("fin")
            r = await holders[0].cmd("USER a", wait=60)     # gives b's slot back (331 for a)
            if len(viol) > 3:
                break
        for h in holders:
            await h.cmd("QUIT", wait=60)
            h.cut("fin")
        await net.quiesce(2.0)
        mon["blackbox_readmission"] += 1
        fresh, got = [], []
        for i in range(smax + 1):
            s = RawPeer(net, 2121, name=f"fresh{i}")
            r = await s.connect()
            got.append(r.code if r not in (None, "EOF") else str(r))
            fresh.append(s)
        if got != ["220"] * smax + ["421"]:
            viol.append({"key": "server-slot-leak" if got.count("220") < smax else "limit-not-enforced",
                         "msg": f"{where}: afterwards {smax + 1} fresh connections were greeted {got}"})
        r = await fresh[0].cmd("USER b", wait=60)
        if r in (None, "EOF") or r.code != "230":
            viol.append({"key": "user-slot-leak", "msg": f"{where}: afterwards USER b answered {r}"})
        for s in fresh:
            s.cut("fin")
        for le in hyg.logged_exceptions():
            if "Too many" in le["exc"]:
                viol.append({"key": "accounting-raised:logged", "msg": str(le)})
        await net.quiesce(1.0)
        await w.stop()
        return {"violations": viol[:4], "monitors": mon, "nevents": len(net.events), "cut_done": False,
                "sig": sig_of(["early", smax, plan.get("write_speed_limit"), plan["early"]]), "nontrivial": True, "codes": []}
    finally:
        w.cleanup()


async def two_servers_scenario(net, hyg, plan):
    """One list of User objects handed to two Server objects (a second listener, a configuration reload): each server keeps
    its own count; building or using the second one changes nothing for sessions attached on the first."""
    from ..rawpeer import RawPeer
    viol = []
    mon = {"two_servers": 1, "blackbox_readmission": 0, "bound_at_events": 0}
    users = [aioftp.User("b", None, base_path="/", maximum_connections=plan["limit"]), aioftp.User("a", "pa", base_path="/", maximum_connections=1)]
    w = W.World(net, users=users)
    w.server = aioftp.Server(users, path_io_factory=w.factory)
    await w.server.start("127.0.0.1", 2121)
    second = None
    try:
        held = []
        for i in range(plan["limit"]):
            h = RawPeer(net, 2121, name=f"holder{i}")
            await h.connect()
            r = await h.cmd("USER b")
            if r in (None, "EOF") or r.code != "230":
                viol.append({"key": "user-slot-leak", "msg": f"holder {i} of {plan['limit']}: USER b answered {r}"})
            held.append(h)
        # the same users list goes into another Server object
        second = aioftp.Server(users, path_io_factory=aioftp.MemoryPathIO)
        if plan["start_second"]:
            await second.start("127.0.0.1", 2122)
            x2 = RawPeer(net, 2122, name="on-second")
            await x2.connect()
            r2 = await x2.cmd("USER b")
            if r2 in (None, "EOF") or r2.code != "230":
                viol.append({"key": "limit-shared-between-servers", "msg": f"the second server (nobody attached there) answered USER b with {r2}"})
        x = RawPeer(net, 2121, name="one-too-many")
        await x.connect()
        r = await x.cmd("USER b")
        mon["bound_at_events"] += 1
        if r in (None, "EOF") or r.code != "530":
            viol.append({"key": "user-limit-not-enforced",
                         "msg": f"{plan['limit']} sessions attached to b (limit {plan['limit']}); after another Server was built from the same "
                                f"users list, one more USER b on the first server answered {r}"})
        for h in held:
            await h.cmd("QUIT")
            h.cut("fin")
        x.cut("fin")
        await net.quiesce(1.0)
        for le in hyg.logged_exceptions():
            if "Too many" in le["exc"]:
                viol.append({"key": "accounting-raised:logged", "msg": str(le)})
        mon["blackbox_readmission"] += 1
        got = []
        fresh = []
        for i in range(plan["limit"] + 1):
            f = RawPeer(net, 2121, name=f"fresh{i}")
            await f.connect()
            r = await f.cmd("USER b")
            got.append(r.code if r not in (None, "EOF") else str(r))
            fresh.append(f)
        if got != ["230"] * plan["limit"] + ["530"]:
            viol.append({"key": "user-slot-leak" if got.count("230") < plan["limit"] else "user-limit-not-enforced",
                         "msg": f"afterwards {plan['limit'] + 1} x USER b on the first server answered {got}"})
        for f in fresh:
            f.cut("fin")
        await net.quiesce(0.5)
        if second is not None and plan["start_second"]:
            await second.close()
        await w.stop()
        return {"violations": viol, "monitors": mon, "nevents": len(net.events), "cut_done": False,
                "sig": sig_of(["two-servers", plan["limit"], plan["start_second"]]), "nontrivial": True, "codes": []}
    finally:
        w.cleanup()


def run_plan(plan):
    rearm()
    async def main(net, hyg):
        if plan.get("early") is not None:
            return await early_scenario(net, hyg, plan)
        if plan.get("two_servers"):
            return await two_servers_scenario(net, hyg, plan)
        return await scenario(net, hyg, plan)
    res, info = W.run(main, seed=plan.get("seed", 0), net_kwargs=dict(latency=plan.get("latency", 0.001), jitter=plan.get("jitter", 0.0)))
    if res is None:
        return W.failed(info)
    return res


def run_case(case):
    out = {"violations": [], "monitors": {}, "sigs": [], "stats": {}}

    def merge(res, plan, label):
        if res.get("inconclusive"):
            out["inconclusive"] = f"{label}: {res['inconclusive']}"
            out["trace"] = res.get("trace", "")
            return False
        for k, v in res["monitors"].items():
            out["monitors"][k] = out["monitors"].get(k, 0) + v
        if res["nontrivial"]:
            out["sigs"].append(res["sig"])
        for v in res["violations"]:
            v["replay_case"] = {"kind": "single", "plan": plan}
            out["violations"].append(v)
        return True
    if case["kind"] == "single":
        res = run_plan(case["plan"])
        merge(res, case["plan"], "single")
        out["sample"] = {"plan": {k: v for k, v in case["plan"].items() if k != "scripts"}, "scripts": case["plan"]["scripts"][:3],
                         "codes": res.get("codes")}
        return out
    base = dict(case["plan"], cut=None)
    res0 = run_plan(base)
    if not merge(res0, base, "baseline"):
        return out
    n = 0
    for k in range(res0["nevents"]):
        for action in case["actions"]:
            plan = dict(base, cut={"k": k, "action": action, "who": case.get("who", 0), "zero_latency": action.endswith("+close"),
                                   "close_after": case.get("close_after", 0)})
            res = run_plan(plan)
            if not merge(res, plan, f"{action}@{k}"):
                return out
            n += 1
    out["stats"]["cut_positions_covered"] = n
    out["sample"] = {"scripts": base["scripts"], "server_limit": base["server_limit"], "ulimits": base["ulimits"],
                     "events": res0["nevents"], "cut_positions": n, "baseline_codes": res0.get("codes")}
    return out


def rand_script(rng, logins):
    st = [["connect"]]
    for _ in range(rng.randint(0, 4)):
        r = rng.random()
        if r < 0.5:
            st.append(["cmd", "USER " + rng.choice(logins)])
        elif r < 0.7:
            st.append(["cmd", "PASS " + rng.choice(["pa", "wrong"])])
        elif r < 0.8:
            st.append(["cmd", "PWD"])
        elif r < 0.9:
            st.append(["sleep", rng.choice([0.002, 0.01, 0.05])])
        else:
            st.append(["cmd", "boom"])
    end = rng.random()
    if end < 0.35:
        st.append(["quit"])
    elif end < 0.55:
        st.append(["cut", "rst"])
    elif end < 0.7:
        st.append(["cut", "fin"])
    elif end < 0.8:
        st.append(["sendcut", "USER " + rng.choice(logins), rng.choice(["fin", "rst"])])
    elif end < 0.9:
        st.append(["sleep", 0.2])
        st.append(["quit"])
    return st


def gen_cases(tier, seed):
    rng = random.Random(seed * 271 + 17)
    cases = []
    n = 400 if tier == "quick" else 10000
    logins = ["a", "b", "nobody", "a", "b"]
    for i in range(n):
        m = rng.randint(2, 6)
        plan = {"seed": seed * 100003 + i, "server_limit": rng.choice([None, 1, 2, 2, 3]),
                "ulimits": {k: rng.choice([1, 2, 3]) for k in rng.sample(["a", "b", "anon"], rng.randint(0, 3))},
                "anonymous": rng.random() < 0.5, "scripts": [rand_script(rng, logins) for _ in range(m)],
                "offsets": [round(rng.random() * 0.02, 4) for _ in range(m)], "latency": rng.choice([0.0005, 0.001, 0.003]),
                "jitter": rng.choice([0, 0, 0.002])}
        r = rng.random()
        if r < 0.12:
            plan["idle_timeout"] = 2.0
        elif r < 0.2:
            plan["close_server"] = True
        cases.append({"kind": "single", "plan": plan})
    # exhaustive cuts of a login script next to a bystander, with limits that bind
    scripts = [
        [["connect"], ["cmd", "USER a"], ["cmd", "PASS pa"], ["cmd", "USER b"], ["cmd", "USER a"], ["cmd", "PASS wrong"], ["quit"]],
        [["connect"], ["cmd", "USER nobody"], ["cmd", "USER a"], ["cmd", "USER a"], ["cmd", "boom"]],
    ]
    for sc in scripts:
        for smax, ul in ((2, {"a": 1}), (None, {"a": 2, "b": 1, "anon": 1}), (1, {})):
            for anon in (True, False):
                cases.append({"kind": "enum", "actions": ["rst", "fin"], "who": 0,
                              "plan": {"seed": seed, "server_limit": smax, "ulimits": ul, "anonymous": anon,
                                       "scripts": [sc, [["connect"], ["cmd", "USER a"], ["sleep", 0.05], ["quit"]]],
                                       "offsets": [0, 0.0031]}})
    # the session ends by itself and Server.close() lands j loop iterations later (inside its clean-up); slow user manager
    for j in (range(0, 12) if tier == "thorough" else range(0, 12, 2)):
        for sm in (None, 0.002):
            cases.append({"kind": "enum", "actions": ["rst+close", "quit+close"], "who": 0, "close_after": j,
                          "plan": {"seed": seed, "server_limit": 2, "ulimits": {"a": 1, "b": 2}, "anonymous": False, "slow_manager": sm,
                                   "scripts": [[["connect"], ["cmd", "USER a"], ["cmd", "PASS pa"], ["cmd", "USER b"], ["sleep", 0.01], ["quit"]],
                                               [["connect"], ["cmd", "USER b"], ["sleep", 0.05], ["quit"]]],
                                   "offsets": [0, 0.0031]}})
    # slow / failing user manager under cuts and schedules
    for sc in scripts:
        cases.append({"kind": "enum", "actions": ["rst", "fin"], "who": 0,
                      "plan": {"seed": seed, "server_limit": 2, "ulimits": {"a": 1, "b": 1}, "anonymous": False, "slow_manager": 0.003,
                               "scripts": [sc + [["cmd", "USER boomuser"]], [["connect"], ["cmd", "USER a"], ["sleep", 0.05], ["quit"]]],
                               "offsets": [0, 0.0031]}})
    # a user manager that has something to await after it gave the slot back; the session vanishes (or the server closes) at every
    # event of a re-login
    for la, sm in ((0.02, 0), (0.02, 0.002)):
        for relogin in ("USER b", "USER a", "USER nobody"):
            cases.append({"kind": "enum", "actions": ["rst", "fin", "rst+close"], "who": 0,
                          "plan": {"seed": seed, "server_limit": 3, "ulimits": {"a": 2, "b": 2}, "anonymous": False, "slow_manager": sm, "logout_after": la,
                                   "scripts": [[["connect"], ["cmd", "USER b"], ["raw", (relogin + "\r\n").encode().hex(), "noreply"], ["sleep", 0.05], ["quit"]],
                                               [["connect"], ["cmd", "USER b"], ["sleep", 0.2], ["quit"]]],
                                   "offsets": [0, 0.0031]}})
    # a re-login (same or other account) while a transfer of the session is still in flight, then the session vanishes
    xfer = [["connect"], ["cmd", "USER a"], ["cmd", "PASS pa"], ["cmd", "TYPE I"], ["pasv"], ["data"],
            ["raw", b"RETR /big.bin\r\n".hex(), "noreply"], ["sleep", 0.02]]
    for second in ("USER a", "USER b", "USER nobody"):
        for smax, ul in ((2, {"a": 1, "b": 1}), (None, {"a": 2})):
            cases.append({"kind": "enum", "actions": ["rst", "fin"], "who": 0,
                          "plan": {"seed": seed, "server_limit": smax, "ulimits": ul, "anonymous": False, "files": True,
                                   "scripts": [xfer + [["raw", (second + "\r\n").encode().hex(), "noreply"], ["sleep", 0.05],
                                                        ["raw", b"PASS pa\r\n".hex(), "noreply"], ["sleep", 0.05], ["cut", "rst"]],
                                               [["connect"], ["cmd", "USER b"], ["sleep", 0.05], ["quit"]]],
                                   "offsets": [0, 0.0031]}})
    # several wrong passwords in a row; a transfer that never gets its data connection (425) - then the session ends
    wrongs = [["connect"], ["cmd", "USER a"], ["cmd", "PASS x1"], ["cmd", "PASS x2"], ["cmd", "PASS x3"], ["cmd", "PASS x4"], ["cmd", "USER a"],
              ["cmd", "PASS pa"], ["quit"]]
    noconn = [["connect"], ["cmd", "USER a"], ["cmd", "PASS pa"], ["pasv"], ["raw", b"RETR /small.txt\r\n".hex(), "noreply"], ["sleep", 1.3],
              ["cmd", "PWD"], ["epsv"], ["raw", b"LIST /\r\n".hex(), "noreply"], ["sleep", 0.3], ["quit"]]
    for sc in (wrongs, noconn):
        for smax, ul in ((2, {"a": 1, "b": 1}), (None, {"a": 2})):
            cases.append({"kind": "enum", "actions": ["rst", "fin"], "who": 0,
                          "plan": {"seed": seed, "server_limit": smax, "ulimits": ul, "anonymous": False, "files": True,
                                   "scripts": [sc, [["connect"], ["cmd", "USER b"], ["sleep", 0.05], ["quit"]]], "offsets": [0, 0.0031]}})
    # slow reply writer (server-wide write limit): the session ends while replies are still queued behind the throttle
    for sc in scripts + [[["connect"], ["cmd", "USER a"], ["cmd", "PASS pa"], ["quit"]]]:
        for smax, ul in ((1, {"a": 1}), (2, {"a": 1, "b": 1})):
            cases.append({"kind": "enum", "actions": ["rst", "fin"], "who": 0,
                          "plan": {"seed": seed, "server_limit": smax, "ulimits": ul, "anonymous": False, "write_speed_limit": 150,
                                   "scripts": [sc, [["connect"], ["cmd", "USER b"], ["sleep", 0.05], ["quit"]]],
                                   "offsets": [0, 0.0031]}})
    for limit in (1, 2):
        for start_second in (False, True):
            cases.append({"kind": "single", "plan": {"seed": seed, "two_servers": True, "limit": limit, "start_second": start_second, "scripts": [],
                                                     "server_limit": None, "ulimits": {}}})
    # peers beyond the server-wide limit whose first command is there before the server looks at the connection
    for smax in (1, 2):
        for wsl in (None, 20, 150):
            for early in ("USER b\r\n", "USER b\r\nPWD\r\n", "USER a\r\nPASS pa\r\n", "NOOP\r\n"):
                for lat in ((0.0, 0.001) if tier == "quick" else (0.0, 0.0005, 0.001, 0.003)):
                    cases.append({"kind": "single", "plan": {"seed": seed, "early": early, "server_limit": smax, "write_speed_limit": wsl,
                                                             "rounds": 6 if tier == "quick" else 20, "latency": lat, "scripts": []}})
    for i in range(60 if tier == "quick" else 1500):
        m = rng.randint(2, 5)
        cases.append({"kind": "single", "plan": {
            "seed": seed * 7 + i, "server_limit": rng.choice([None, 2, 3]), "ulimits": {k: rng.choice([1, 2]) for k in ("a", "b")},
            "anonymous": rng.random() < 0.3, "slow_manager": rng.choice([0.0005, 0.002, 0.01]),
            "scripts": [rand_script(rng, logins + ["boomuser"]) for _ in range(m)],
            "offsets": [round(rng.random() * 0.02, 4) for _ in range(m)], "latency": rng.choice([0.0005, 0.001, 0.003])}})
    return cases
