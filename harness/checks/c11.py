"""C11 - the passive data-port pool neither loses nor duplicates ports."""

import asyncio
import errno
import random

from .. import boot  # noqa: F401
from .. import world as W
from ..corpus import Session
from ..runner import sig_of, rearm
import aioftp

PROPERTY = "C11"
LEVEL = "fault_enumeration"
RULE = ("cases = (pool size 0..3) x (1..5 concurrent raw-peer sessions from 8 script templates, seeded start "
        "offsets/latencies) x (bind-fault plans: EADDRINUSE/EACCES/EMFILE on any subset of ports at any attempt) "
        "+ exhaustive cut enumeration: for each script every network event k (FIN and RST) "
        "+ cut at loop iteration i=0..12 after the PASV/EPSV line reached the server, under 4 listener start-up "
        "suspension profiles.  distinct = distinct (event order, reply codes, final pool) signatures; non-trivial = "
        "at least one passive listener was requested.")
RULE += ("  " + 'Also (round 6): a server without anonymous fall-back: a session holding a listener sends a second USER that is rejected (530), a wrong password, or pipelines PASV / USER / EPSV, and then quits, is cut or logs in again.')
RULE += ("  " + 'Also (round 7): data_ports handed over as tuple, generator, iterator, map or range.')
RULE += ("  " + 'Also (round 8): close() and a second start() of the same Server object, then the pool and re-open checks; listener start-ups that take 3-8 iterations before they bind, with pipelined PASV / EPSV.')
RULE += ("  " + 'Also (round 10): EPSV with a protocol argument (1, 2, ALL, 3) before any listener, then quit or cut.')
RULE += ("  " + 'Also (round 11): the session ends while its data connection holds unsent bytes for a peer that keeps it open and does not read (cut_control).')
ASSUMPTIONS = [
    "network is the in-memory model of harness/simnet.py (validated against loopback on fault-free scripts)",
    "listener start-up has 0..2 suspension points before and 1..2 after bind (CPython 3.12 has gather+sleep(0))",
    "pool content is read from Server.available_data_ports._queue (read-only); the black-box re-open check "
    "does not depend on it",
]
REQUIRED_MONITORS = ["blackbox_reopen"]  # the pool-content monitors read a private attribute and are optional
ANCHOR_FUNCTIONS = ['server.py:Server._start_passive_server', 'server.py:Server.pasv', 'server.py:Server.epsv']
EXHAUSTIVE = {"quick": False, "thorough": False}
WALL_BUDGET = {"quick": 600, "thorough": 3600}

PORTS = [30001, 30002, 30003]

LOGIN = [["connect"], ["login"]]
TEMPLATES = {
    "retr": LOGIN + [["pasv"], ["data"], ["xfer", "RETR", "/f.bin"], ["quit"]],
    "epsv2": LOGIN + [["epsv"], ["epsv"], ["pasv"], ["quit"]],
    "pasv_cut": LOGIN + [["pasv"], ["cut", "rst"]],
    "pasv_fincut": LOGIN + [["epsv"], ["data"], ["cut", "fin"]],
    "sendcut_pasv": LOGIN + [["sendcut", "PASV", "fin"]],
    "sendcut_epsv": LOGIN + [["sendcut", "EPSV", "rst"]],
    "hold": LOGIN + [["pasv"], ["sleep", 0.3], ["quit"]],
    "two": LOGIN + [["epsv"], ["xfer", "STOR", "/u.bin", 3000], ["pasv"], ["xfer", "RETR", "/f.bin"], ["quit"]],
    "nopasv": LOGIN + [["cmd", "PWD"], ["quit"]],
    "pipe_pasv2": LOGIN + [["pipeline", ["PASV", "PASV"]], ["quit"]],
    "pipe_pasv_epsv": LOGIN + [["pipeline", ["EPSV", "PASV", "EPSV"]], ["data"], ["xfer", "RETR", "/f.bin"], ["quit"]],
    "relogin_pasv": LOGIN + [["pasv"], ["login"], ["pasv"], ["quit"]],
    "relogin_epsv_data": LOGIN + [["epsv"], ["data"], ["login"], ["epsv"], ["data"], ["xfer", "RETR", "/f.bin"], ["login"], ["quit"]],
    "relogin_cut": LOGIN + [["pasv"], ["login"], ["cut", "rst"]],
    "pipe_pasv_cut": LOGIN + [["pipeline", ["PASV", "EPSV"]], ["cut", "rst"]],
    # EPSV with a network protocol argument (RFC 2428: 1 = IPv4, 2 = IPv6, anything else), refused or not, before any listener
    "epsv_args": LOGIN + [["cmd", "EPSV 2"], ["cmd", "EPSV 1"], ["cmd", "EPSV ALL"], ["cmd", "EPSV 3"], ["quit"]],
    "epsv_arg_then_cut": LOGIN + [["cmd", "EPSV 2"], ["cmd", "EPSV 2"], ["cut", "rst"]],
    # the session ends while its data connection still holds unsent bytes for a peer that keeps it open and does not read
    "stalled_download_then_gone": LOGIN + [["pasv"], ["data"], ["raw", b"RETR /huge.bin\r\n".hex(), "noreply"], ["sleep", 0.05],
                                           ["cut_control", "rst"]],
    "stalled_download_then_quit": LOGIN + [["epsv"], ["data"], ["raw", b"RETR /huge.bin\r\n".hex(), "noreply"], ["sleep", 0.05],
                                           ["cut_control", "fin"]],
}
# a server without anonymous fall-back: a second USER with an unknown name is rejected (530) and leaves the session without a user
ALICE = [["connect"], ["login", "alice", "pw"]]
NOANON = {
    "rejected_pasv_quit": ALICE + [["pasv"], ["cmd", "USER mallory"], ["quit"]],
    "rejected_epsv_data_cut": ALICE + [["epsv"], ["data"], ["cmd", "USER mallory"], ["cut", "rst"]],
    "rejected_then_ok": ALICE + [["pasv"], ["cmd", "USER mallory"], ["login", "alice", "pw"], ["epsv"], ["data"], ["xfer", "RETR", "/f.bin"], ["quit"]],
    "rejected_pw": ALICE + [["pasv"], ["login", "alice", "wrong"], ["cmd", "PWD"], ["quit"]],
    "rejected_pipe": ALICE + [["pipeline", ["PASV", "USER mallory", "EPSV"]], ["cut", "fin"]],
    "plain": ALICE + [["epsv"], ["data"], ["xfer", "RETR", "/f.bin"], ["quit"]],
}


def pool_ports(server):
    q = getattr(server, "available_data_ports", None)
    if q is None:
        return None
    try:
        return sorted(p for _, p in list(q._queue))
    except Exception:
        return None


async def execute(net, hyg, plan):
    n = plan["n"]
    conf = PORTS[:n]
    viol = []
    mon = {"pool_between_events": 0, "pool_quiescent": 0, "blackbox_reopen": 0, "exhaustion_421": 0}
    net.listen_pre_yields, net.listen_post_yields = plan.get("yields", [1, 1])
    lats = plan.get("lat") or []

    def policy(conn):
        if conn.port == 2121 and conn.id < len(lats) * 2:
            pass
    host = plan.get("host", "127.0.0.1")      # "::1": PASV is answered 503 there, EPSV works
    login = LOGIN
    users = None
    if plan.get("noanon"):
        login = ALICE
        users = lambda base: [aioftp.User("alice", "pw", base_path=base)]  # noqa: E731
    # data_ports is documented as an iterable: a list, a range, or something that can be walked only once
    shape = plan.get("ports_as", "list")
    ports_arg = {"list": lambda: list(conf), "tuple": lambda: tuple(conf), "generator": lambda: (p_ for p_ in conf),
                 "iterator": lambda: iter(conf), "map": lambda: map(int, [str(p_) for p_ in conf]),
                 "range": lambda: range(conf[0], conf[-1] + 1) if conf else range(0)}[shape]()
    world = W.World(net, tree={"/f.bin": b"x" * 5000, "/huge.bin": b"h" * 400000}, data_ports=ports_arg, host=host, users=users)
    await world.start()
    server = world.server
    for port, plan_errs in (plan.get("faults") or {}).items():
        net.bind_faults[int(port)] = list(plan_errs)

    # exhaustion monitor: wrap the instance attribute the handlers look up
    orig = getattr(server, "_start_passive_server", None)
    if orig is not None:
        async def wrapped(connection, handler):
            mark = len(net.bind_log)
            try:
                return await orig(connection, handler)
            except Exception as e:
                if type(e).__name__ == "NoAvailablePort":
                    mon["exhaustion_421"] += 1
                    tried = {p for p, e_ in net.bind_log[mark:] if e_ is not None}
                    bound = {s.port for s in net.servers if not s.closed}
                    free = [p for p in conf if p not in tried and p not in bound]
                    pool_now = pool_ports(server)
                    if free and pool_now is not None and any(p in pool_now for p in free):
                        viol.append({"key": "exhaustion-with-free-port",
                                     "msg": f"NoAvailablePort although ports {free} are free and untried (pool {pool_now})"})
                raise
        server._start_passive_server = wrapped

    sessions = []
    cut = plan.get("cut")
    state = {"cut_done": False}

    def do_cut():
        if state["cut_done"]:
            return
        state["cut_done"] = True
        s = sessions[cut["who"]]
        if cut.get("zero_latency", True) and getattr(s.peer, "conn", None) is not None:
            s.peer.conn.latency = 0.0
            for _, w in s.peer.data_conns:
                w.transport.conn.latency = 0.0
        s.peer.cut(cut["kind"])
        s.alive = False
        s.ended_by = "cut"
        t = tasks[cut["who"]]
        t.cancel()

    def chain(i, fn):
        if i <= 0:
            fn()
        else:
            net.loop.call_soon(chain, i - 1, fn)

    def on_event(idx, conn, direction, kind, nbytes):
        # duplicates between events
        pool = pool_ports(server)
        if pool is not None:
            mon["pool_between_events"] += 1
            bound = [s.port for s in net.servers if not s.closed and s.port in conf]
            both = pool + bound
            if len(set(both)) != len(both):
                viol.append({"key": "port-duplicated", "msg": f"after event {idx}: pool={pool} bound={bound}",
                             "detail": {"event": idx}})
        if cut and not state["cut_done"]:
            if cut["mode"] == "event" and idx == cut["k"]:
                do_cut()
            elif cut["mode"] == "iter":
                s = sessions[cut["who"]]
                pc = getattr(s.peer, "conn", None)
                if (pc is conn and direction == "c2s" and kind == "DATA" and s.current_step
                        and s.current_step[0] in ("pasv", "epsv") and not conn.c2s.sendbuf and not conn.c2s.flight):
                    chain(cut["i"], do_cut)

    net.on_event = on_event

    async def one(j, script):
        off = (plan.get("offsets") or [0] * 8)[j]
        if off:
            await asyncio.sleep(off)
        s = sessions[j]
        await s.run(script)

    for j, script in enumerate(plan["scripts"]):
        sessions.append(Session(net, 2121, name=f"s{j}", host=host))
    if lats:
        def policy(conn):  # noqa: F811
            # control connections are created in session order at staggered times; skew by connection id
            conn.latency = lats[conn.id % len(lats)]
        net.conn_policy = policy
    tasks = [asyncio.ensure_future(one(j, sc)) for j, sc in enumerate(plan["scripts"])]
    await asyncio.wait(tasks)
    for t in tasks:
        if not t.cancelled() and t.exception() is not None:
            raise t.exception()
    # every script ends by QUIT or a cut; make sure nobody is left alive
    for s in sessions:
        if s.alive:
            s.peer.cut("fin")
    net.on_event = None
    quiet = await net.quiesce(5.0)
    pool = pool_ports(server)
    bound = sorted(s.port for s in net.servers if not s.closed and s.port in conf)
    if pool is not None:
        mon["pool_quiescent"] += 1
        if not quiet:
            return {"inconclusive": "no quiescence"}
        if sorted(pool + bound) != sorted(conf) or bound:
            lost = sorted(set(conf) - set(pool) - set(bound))
            key = "port-lost" if lost else ("port-still-bound" if bound else "port-duplicated")
            viol.append({"key": key, "msg": f"after all sessions ended: pool={pool} still-bound={bound} configured={conf}",
                         "detail": {"lost": lost}})
    if plan.get("restart"):
        # the same Server object is closed and started again: the pool is the configured ports once more, nothing else
        await asyncio.wait_for(server.close(), 30)
        await net.quiesce(0.5)
        await server.start(host, 2121)
        pool = pool_ports(server)
        if pool is not None and sorted(pool) != sorted(conf):
            viol.append({"key": "port-duplicated" if len(pool) > len(conf) else "port-lost",
                         "msg": f"after close() and a second start() of the same Server: pool={pool} configured={conf}"})
    # black-box: the full pool can be used again
    net.bind_faults.clear()
    got = []
    fresh = []
    for j in range(n):
        s = Session(net, 2121, name=f"fresh{j}", host=host)
        fresh.append(s)
        await s.run(login + [["epsv" if ":" in host else "pasv"]])
        codes = s.flat_codes()
        got.append((codes[-1] if codes else None, s.pasv_port if codes and codes[-1] in ("227", "229") else None))
    mon["blackbox_reopen"] += 1
    ok_ports = sorted(p for c, p in got if c in ("227", "229"))
    if n and ok_ports != sorted(conf):
        viol.append({"key": "port-lost" if len(ok_ports) < n else "port-duplicated",
                     "msg": f"after all sessions ended only {ok_ports} of {conf} could be opened again: {got}",
                     "detail": {"reopen": got}})
    if n == 0:
        s = Session(net, 2121, name="fresh0", host=host)
        await s.run(login + [["epsv" if ":" in host else "pasv"]])
        mon["blackbox_reopen"] += 0
        if s.flat_codes()[-1:] != ["421"]:
            viol.append({"key": "empty-pool-not-421", "msg": f"PASV with an empty pool answered {s.flat_codes()}"})
        fresh.append(s)
    for s in fresh:
        s.peer.cut("fin")
    await world.stop()
    world.cleanup()
    codes = [s.flat_codes() for s in sessions]
    requested = any(st[0] in ("pasv", "epsv", "sendcut", "pipeline") for sc in plan["scripts"] for st in sc)
    return {"violations": viol, "monitors": mon, "nevents": len(net.events),
            "sig": sig_of([net.order_signature(), codes, pool]), "nontrivial": requested,
            "codes": codes, "pool": pool}


def run_plan(plan, seed=0):
    rearm()
    async def main(net, hyg):
        return await execute(net, hyg, plan)
    res, info = W.run(main, seed=seed, net_kwargs=dict(mss=plan.get("mss", 1460), latency=plan.get("latency", 0.001)))
    if res is None:
        return W.failed(info)
    return res


def run_case(case):
    kind = case["kind"]
    out = {"violations": [], "monitors": {}, "sigs": [], "stats": {}}

    def merge(res, plan, label):
        if res.get("inconclusive"):
            out["inconclusive"] = f"{label}: {res['inconclusive']}"
            out["trace"] = res.get("trace", "")
            return
        for k, v in res["monitors"].items():
            out["monitors"][k] = out["monitors"].get(k, 0) + v
        if res["nontrivial"]:
            out["sigs"].append(res["sig"])
        for v in res["violations"]:
            v["replay_case"] = {"kind": "single", "plan": plan, "seed": case.get("seed", 0)}
            v["msg"] = f"[{label}] " + v["msg"]
            out["violations"].append(v)

    if kind == "single":
        plan = case["plan"]
        res = run_plan(plan, case.get("seed", 0))
        merge(res, plan, "single")
        out["sample"] = {"plan": plan, "codes": res.get("codes"), "pool": res.get("pool")}
        return out
    if kind == "cutenum":
        base = dict(case["plan"])
        base["cut"] = None
        res0 = run_plan(base, case.get("seed", 0))
        merge(res0, base, "baseline")
        if res0.get("inconclusive"):
            return out
        N = res0["nevents"]
        positions = 0
        for k in range(N):
            for ck in case["kinds"]:
                plan = dict(case["plan"])
                plan["cut"] = {"mode": "event", "k": k, "kind": ck, "who": case.get("who", 0),
                               "zero_latency": case.get("zero_latency", False)}
                res = run_plan(plan, case.get("seed", 0))
                merge(res, plan, f"cut@{k}/{ck}")
                positions += 1
        out["stats"]["cut_positions_covered"] = positions
        out["sample"] = {"scripts": case["plan"]["scripts"], "events_in_baseline": N, "cut_positions": positions,
                         "baseline_codes": res0.get("codes")}
        return out
    if kind == "startup":
        n_it = 0
        for i in case["iters"]:
            for ck in case["kinds"]:
                plan = dict(case["plan"])
                plan["cut"] = {"mode": "iter", "i": i, "kind": ck, "who": case.get("who", 0)}
                res = run_plan(plan, case.get("seed", 0))
                merge(res, plan, f"iter{i}/{ck}")
                n_it += 1
        out["stats"]["startup_cut_points_covered"] = n_it
        out["sample"] = {"scripts": case["plan"]["scripts"], "yields": case["plan"].get("yields"),
                         "iterations": case["iters"], "kinds": case["kinds"]}
        return out
    raise ValueError(kind)


def gen_cases(tier, seed):
    rng = random.Random(seed * 7919 + 11)
    cases = []
    names = sorted(TEMPLATES)
    nsched = 120 if tier == "quick" else 40000
    errs = [errno.EADDRINUSE, errno.EADDRINUSE, errno.EACCES, errno.EMFILE]
    for c in range(nsched):
        n = rng.choice([0, 1, 1, 2, 2, 2, 3, 3])
        m = rng.randint(1, min(5, n + 2))
        scripts = [TEMPLATES[rng.choice(names)] for _ in range(m)]
        faults = {}
        if rng.random() < 0.5:
            for p in PORTS[:n]:
                if rng.random() < 0.5:
                    L = [rng.choice(errs + [None]) for _ in range(rng.randint(1, 3))]
                    faults[str(p)] = L
        plan = {"n": n, "scripts": scripts, "offsets": [round(rng.random() * 0.02, 4) for _ in range(8)],
                "lat": [rng.choice([0.0005, 0.001, 0.002, 0.005]) for _ in range(3)],
                "mss": rng.choice([3, 7, 64, 1460, "rand"]), "faults": faults,
                "yields": rng.choice([[1, 1], [1, 1], [0, 1], [2, 1], [1, 2]])}
        cases.append({"kind": "single", "plan": plan, "seed": seed * 100003 + c})
    # a busy low-numbered port must not shadow an untried port that was busy earlier
    for lat in (0.0005, 0.001, 0.004):
        for cmd in ("pasv", "epsv"):
            cases.append({"kind": "single", "seed": seed, "plan": {
                "n": 2, "latency": lat, "offsets": [0, 0.02, 0.3],
                "faults": {str(PORTS[0]): [None, errno.EADDRINUSE, errno.EADDRINUSE, errno.EADDRINUSE],
                           str(PORTS[1]): [errno.EADDRINUSE]},
                "scripts": [LOGIN + [[cmd], ["sleep", 0.1], ["quit"]], LOGIN + [[cmd], ["quit"]],
                            LOGIN + [[cmd], ["cmd", "PWD"], ["quit"]]]}})
    # IPv6 control connections: PASV is refused (503) there, EPSV serves
    for name in sorted(TEMPLATES):
        for n in (1, 2):
            cases.append({"kind": "single", "seed": seed, "plan": {"n": n, "host": "::1", "scripts": [TEMPLATES[name], TEMPLATES["epsv2"]],
                                                                   "offsets": [0, 0.002], "yields": [1, 1]}})
    # commands sent without waiting for the replies (two listener start-ups of one session in flight at once)
    for name in ("pipe_pasv2", "pipe_pasv_epsv", "pipe_pasv_cut", "relogin_pasv", "relogin_epsv_data", "relogin_cut"):
        for n in (1, 2, 3):
            cases.append({"kind": "single", "seed": seed, "plan": {"n": n, "scripts": [TEMPLATES[name]], "yields": [1, 1]}})
            cases.append({"kind": "single", "seed": seed, "plan": {"n": n, "scripts": [TEMPLATES[name], TEMPLATES["hold"]],
                                                                   "offsets": [0.003, 0], "yields": [2, 1]}})
            # a listener start-up that takes its time before it binds (address resolution): the next command is there meanwhile
            for pre in (3, 5, 8):
                cases.append({"kind": "single", "seed": seed, "plan": {"n": n, "scripts": [TEMPLATES[name]], "yields": [pre, 1]}})
    # close() and start() again, then the usual checks
    for name in ("retr", "two", "pasv_cut", "hold"):
        for n in (1, 2):
            cases.append({"kind": "single", "seed": seed, "plan": {"n": n, "restart": True, "scripts": [TEMPLATES[name]], "yields": [1, 1]}})
    # the configured ports handed over in other iterable shapes
    for shape in ("tuple", "generator", "iterator", "map", "range"):
        for name in ("retr", "two") if tier == "quick" else ("retr", "two", "epsv2", "hold"):
            for n in (1, 3):
                cases.append({"kind": "single", "seed": seed, "plan": {"n": n, "ports_as": shape, "scripts": [TEMPLATES[name], TEMPLATES["retr"]],
                                                                       "offsets": [0, 0.002], "yields": [1, 1]}})
    # sessions that lose their user by a rejected second USER / PASS while holding a listener
    for name in sorted(NOANON):
        for n in (1, 2):
            cases.append({"kind": "single", "seed": seed, "plan": {"n": n, "noanon": True, "scripts": [NOANON[name]], "yields": [1, 1]}})
            cases.append({"kind": "single", "seed": seed, "plan": {"n": n, "noanon": True, "scripts": [NOANON[name], NOANON["plain"]],
                                                                   "offsets": [0, 0.002], "yields": [1, 2]}})
    if tier == "thorough":
        for name in sorted(NOANON):
            if NOANON[name][-1][0] != "cut":
                for n in (1, 2):
                    cases.append({"kind": "cutenum", "kinds": ["rst", "fin"], "who": 0,
                                  "plan": {"n": n, "noanon": True, "scripts": [NOANON[name]], "mss": 1460}, "seed": seed})
    # exhaustive cut positions per script
    cut_scripts = ["retr", "epsv2", "two"] if tier == "quick" else ["retr", "epsv2", "two", "hold", "pasv_fincut", "relogin_pasv", "relogin_epsv_data"]
    for name in cut_scripts:
        for n in ([1, 2] if tier == "quick" else [1, 2, 3]):
            for zl in ([False] if tier == "quick" else [False, True]):
                cases.append({"kind": "cutenum", "kinds": ["rst", "fin"], "zero_latency": zl,
                              "plan": {"n": n, "scripts": [TEMPLATES[name]], "mss": 1460}, "seed": seed})
    # with a bystander holding a port
    for name in (["retr"] if tier == "quick" else ["retr", "two", "epsv2"]):
        cases.append({"kind": "cutenum", "kinds": ["rst"], "who": 1,
                      "plan": {"n": 2, "scripts": [TEMPLATES["hold"], TEMPLATES[name]], "mss": 1460,
                               "offsets": [0, 0.004]}, "seed": seed})
    # cut inside listener start-up
    iters = list(range(0, 9)) if tier == "quick" else list(range(0, 13))
    for yields in ([[1, 1], [0, 1], [2, 1], [1, 2]] if tier == "thorough" else [[1, 1], [2, 1]]):
        for cmdstep in (["pasv"], ["epsv"]):
            for n in (1, 2):
                for mss in ([1460] if tier == "quick" else [1460, 3]):
                    cases.append({"kind": "startup", "iters": iters, "kinds": ["fin", "rst"],
                                  "plan": {"n": n, "scripts": [LOGIN + [cmdstep, ["cmd", "PWD"], ["quit"]]],
                                           "yields": yields, "mss": mss}, "seed": seed})
    # second PASV start-up after a transfer (listener already there: nothing to lose) and with faults
    cases.append({"kind": "startup", "iters": iters, "kinds": ["fin", "rst"],
                  "plan": {"n": 2, "scripts": [LOGIN + [["pasv"], ["cmd", "PWD"]]],
                           "faults": {str(PORTS[0]): [errno.EADDRINUSE]}, "yields": [1, 1]}, "seed": seed})
    return cases
