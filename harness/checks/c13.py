"""C13 - back-end failures are contained: 451, data channel closed, session lives on."""

import asyncio
import errno
import random

from .. import boot  # noqa: F401
from .. import world as W
from ..corpus import Session, corpus, corpus_tree, corpus_users, payload_bytes
from ..runner import sig_of, rearm
from ..spyfs import Fault, Bare

PROPERTY = "C13"
LEVEL = "fault_enumeration"
RULE = ("for each corpus script and each k = 1..N (N = back-end calls of the fault-free run) the k-th back-end call "
        "of the session raises (OSError EIO/ENOSPC/EACCES, or a non-OSError exception); plus 'every call of operation "
        "X fails from now on' for each of the 14 operations; with and without a concurrent bystander session.  distinct "
        "= distinct (script, failing operation, call site = step kind, reply codes) signatures; non-trivial = the "
        "fault actually fired.")
RULE += ("  " + 'Also: bursts of commands with exactly one user of the failing operation (replies judged by position); a bare PathIOError; time-outs as failures; every other probe re-uses the passive listener of the failed transfer.')
RULE += ("  " + 'Also (round 6): the aborted-in-mid-transfer script belongs to the quick tier as well.')
RULE += ("  " + 'Also: the failed upload command is simply given again and must work.')
RULE += ("  " + 'Also (round 7): socket_timeout configured and downloads larger than every buffer, a fault at every back-end call (the reply must still be 451).')
RULE += ("  " + 'Also (round 8): operating-system messages in another language with a line break in them, also on a latin-1 server.')
RULE += ("  " + "Also (round 9): the real executor-based back end WITHOUT the spy around it, path_timeout configured - the k-th job it gives to its executor is slower than path_timeout or fails inside the thread (every k); what the back end's own decorators let through is what the server gets.")
RULE += ("  " + 'Also (round 10): a transfer command right behind REST that fails before its mark keeps its prepared data connection and is given again at once (no other command in between): the whole file (retry_after_rest).')
RULE += ("  " + 'Also (round 11): 80 failing transfers in one session with good ones in between and at the end (repeat); the probe after every fault also lists /dir (probe_listing); a download to a peer that has stopped reading, socket_timeout set, the storage failing while unsent data sits in the buffers (retr_stalled).')
ASSUMPTIONS = [
    "faults are raised inside aioftp's own universal_exception wrapper by a spying subclass of the shipped back end",
    "a data connection must be closed by the server only when the transfer was started (1xx mark sent)",
    "in-memory network model",
]
REQUIRED_MONITORS = ["fault_fired", "reply_451", "probe", "data_closed", "bystander"]
ANCHOR_FUNCTIONS = ['pathio.py:universal_exception.<locals>.wrapper', 'server.py:Server.dispatcher', 'server.py:PathConditions.__call__.<locals>.wrapper']
EXHAUSTIVE = {"quick": True, "thorough": True}
WALL_BUDGET = {"quick": 900, "thorough": 7200}

EXCS = {
    "eio": lambda: OSError(errno.EIO, "injected EIO"),
    "enospc": lambda: OSError(errno.ENOSPC, "injected ENOSPC"),
    "eacces": lambda: PermissionError(errno.EACCES, "injected EACCES"),
    "fault": lambda: Fault("injected non-OSError"),
    "value": lambda: ValueError("injected ValueError"),
    "timeout": lambda: asyncio.TimeoutError(),
    # an operating system message in the local language, with a line break in it (message catalogues do have such)
    "oddtext": lambda: OSError(errno.EIO, "\u0441\u0431\u043e\u0439 \u0432\u0432\u043e\u0434\u0430/\u0432\u044b\u0432\u043e\u0434\u0430\n226 ask your administrator"),
    "bare": lambda: Bare(),      # reaches the server as aioftp.PathIOError() without a reason (a custom back end raising it itself)
}
QUICK_SCRIPTS = ["walk", "mkd_rmd", "stor_pasv", "stor_epsv_after", "appe", "retr_pasv", "retr_rest", "stor_rest",
                 "list", "mlsd", "mlst", "rename", "dele", "two_transfers", "pipelined_fs", "stor_rest_missing", "abor_mid"]
PROBE = [["cmd", "PWD"], ["epsv"], ["xfer", "STOR", "/probe.bin", 1234], ["epsv"], ["xfer", "RETR", "/probe.bin"], ["quit"]]


def step_kind(st):
    if st[0] == "xfer":
        return "xfer:" + st[1]
    if st[0] == "cmd":
        return "cmd:" + st[1].split(" ")[0]
    return st[0]


async def execute(net, hyg, plan):
    prefixes = ["", "/by"] if plan.get("bystander") else [""]
    w = W.World(net, tree=corpus_tree(prefixes), users=corpus_users, backend=plan.get("backend", "memory"),
                block_size=plan.get("block_size", 8192), raw=bool(plan.get("raw")), **(plan.get("server_kwargs") or {}))
    await w.start()
    loop = asyncio.get_running_loop()
    try:
        script = plan["inline"] if plan.get("inline") else corpus("")[plan["script"]]
        s = Session(net, 2121, name="victim")
        by = None
        by_task = None
        if plan.get("bystander"):
            by = Session(net, 2121, name="bystander")
            by_script = corpus("/by")[plan["bystander"]]
        fired = {"step": None, "op": None, "n": None}
        count = {"n": 0}
        k = plan.get("k")
        op_all = plan.get("op_all")
        mk = EXCS[plan.get("exc", "eio")]

        def victim_port():
            try:
                return s.peer.writer.transport.get_extra_info("sockname")[1]
            except Exception:
                return None

        race = None
        if plan.get("abor_race") is not None:
            # the storage read of a download is held until the ABOR line has arrived at the server and `abor_race` further loop
            # iterations have passed, then it fails: the failure falls before, into and after the moment ABOR is handled
            race = {"ctl": 0, "go": asyncio.Event(), "held": False, "fire_n": None}

            def on_event(idx, conn, direction, k_, n):
                if (conn is getattr(s.peer, "conn", None) and direction == "c2s" and k_ == "DATA"
                        and (s.current_step or [None])[0] == "xfer_abort"):
                    race["ctl"] += 1
                    if race["ctl"] >= 2:
                        race["go"].set()
            net.on_event = on_event

            async def gate(spy, op, path, n):
                if op != "read" or race["held"] or (s.current_step or [None])[0] != "xfer_abort" or w.ctl.session_of(spy) != victim_port():
                    return
                race["held"] = True
                await race["go"].wait()
                for _ in range(plan["abor_race"]):
                    await asyncio.sleep(0)
                race["fire_n"] = n
            w.ctl.gate = gate

        def fail(op, path, n, sess):
            if sess is None or sess != victim_port():
                return None
            if race is not None:
                if race["fire_n"] == n:
                    race["fire_n"] = None
                    fired.update(step=s.step_index, op=op, n=n)
                    return mk()
                return None
            count["n"] += 1
            hit = (k is not None and count["n"] == k) or (op_all is not None and op == op_all and fired.get("armed", True))
            if hit:
                if fired["step"] is None:
                    fired.update(step=s.step_index, op=op, n=count["n"])
                return mk()
            return None
        w.ctl.fail = fail
        if plan.get("raw"):
            # the real back end without the spy: the k-th job it gives to the executor fails inside the thread, or takes longer
            # than path_timeout - whatever the back end's own decorators make of that is what the server gets
            def exec_hook(func):
                if not fired.get("armed", True):
                    return None
                count["n"] += 1
                if k is not None and count["n"] == k:
                    name = getattr(getattr(func, "func", func), "__qualname__", "?").replace("AsyncPathIO.", "").replace(".<locals>", "")
                    fired.update(step=s.step_index, op=f"{name}[{plan['raw']}]", n=count["n"])
                    if plan["raw"] == "slow":
                        return ("delay", plan["slow"])
                    return ("raise_after" if name.endswith("close") else "raise", mk())
                return None
            loop.exec_hook = exec_hook
        if plan.get("backend_delay"):
            rng = random.Random(plan.get("seed", 0))
            w.ctl.delay = lambda op, path, n: rng.choice(plan["backend_delay"])
        if by is not None:
            by_task = asyncio.ensure_future(by.run(by_script))
            await asyncio.sleep(plan.get("by_offset", 0.0013))
        # victim: step by step until the fault has fired during a step
        for i, st in enumerate(script):
            s.step_index = i
            s.current_step = st
            # a transfer command right behind REST: if it is refused, the prepared data connection is kept for the retry
            s.keep_data_on_refusal = bool(i and script[i - 1][0] == "cmd" and script[i - 1][1].startswith("REST ") and st[0] == "xfer")
            ok = await s.step(st)
            if fired["step"] is not None or not ok:
                break
        mon = {"fault_fired": 0, "reply_451": 0, "probe": 0, "data_closed": 0, "bystander": 0}
        viol = []
        ncalls = count["n"]
        site = None
        if fired["step"] is not None:
            mon["fault_fired"] = 1
            st = script[fired["step"]]
            site = f"{step_kind(st)}/{fired['op']}"
            outcome = s.outcomes[fired["step"]] if fired["step"] < len(s.outcomes) else []
            codes = [c for c in outcome if len(c) == 3 and c.isdigit()]
            mon["reply_451"] = 1
            w.ctl.fail = None
            fired["armed"] = False
            if plan.get("raw"):
                mon["raw_backend_fault"] = 1
            marks = [c for c in codes if c.startswith("1")]
            finals = [c for c in codes if not c.startswith("1")]
            where = f"step {st} failing {fired['op']} (call #{fired['n']}, {plan.get('exc', 'eio')})"
            if st[0] == "xfer_abort":
                # the step holds two commands: the transfer (451, or 426 if the fault came after the abort took
                # effect) and ABOR, which must be answered 226 in any case
                if "EOF" in outcome or "TIMEOUT" in outcome:
                    viol.append({"key": f"abor-unanswered-after-backend-failure:{fired['op']}",
                                 "msg": f"{where}: outcome {outcome} - the ABOR sent during the failing transfer got no reply"})
                elif not ((not marks and finals == ["451"]) or (len(marks) == 1 and finals in (["451", "226"], ["426", "226"]))):
                    viol.append({"key": f"wrong-reply:{site}", "msg": f"{where}: replied {codes} (expected 1xx, 451|426, 226)"})
            elif st[0] == "pipeline":
                # several commands in one burst: every one of them is answered, the failing one(s) with 451
                n451 = codes.count("451")
                if "EOF" in outcome or "TIMEOUT" in outcome or len(codes) < len(st[1]):
                    viol.append({"key": f"session-lost:{site}",
                                 "msg": f"{where}: {len(st[1])} pipelined commands got {outcome} - a command was never answered"})
                elif n451 < 1 or (k is not None and n451 != 1) or len(codes) != len(st[1]):
                    viol.append({"key": f"wrong-reply:{site}", "msg": f"{where}: replied {codes} (expected one reply per command, "
                                                                      f"451 for the failing one)"})
            elif "EOF" in outcome or "TIMEOUT" in outcome:
                viol.append({"key": f"session-lost:{site}", "msg": f"{where}: outcome {outcome}"})
            elif finals != ["451"] or len(marks) > 1:
                kind = "success-reply" if any(c.startswith("2") for c in finals) else "wrong-reply"
                viol.append({"key": f"{kind}:{site}", "msg": f"{where}: replied {codes} (expected [1xx,] 451)"})
            # data channel of a started transfer must be closed by the server, without further commands
            if marks:
                mon["data_closed"] = 1
                await net.settle()
                await asyncio.sleep(1.0)
                open_data = [t for t in net.transports if t.side == "accept" and t.conn.port != 2121 and t.state != "closed"]
                if open_data or "timeout" in outcome:
                    viol.append({"key": f"data-channel-left-open:{site}",
                                 "msg": f"{where}: 451 sent but server-side data connection(s) "
                                        f"{[(t.conn.id, t.state) for t in open_data]} still open; peer saw {outcome}"})
            # probe: the same session stays fully usable
            if s.alive:
                mon["probe"] = 1
                before = len(s.outcomes)
                reuse = bool(marks) and s.pasv_port is not None and (fired["n"] or 0) % 2 == 0
                # every other time the passive listener of the failed transfer serves the next ones (no new PASV/EPSV)
                probe = [st2 for st2 in PROBE if st2 != ["epsv"]] if reuse else PROBE
                # the failed command itself works when it is simply given again (nothing of the failed attempt lingers)
                redo = None
                prev = script[fired["step"] - 1] if fired["step"] else None
                after_rest = (st[0] == "xfer" and st[1] in ("RETR", "STOR") and not marks and prev is not None and prev[0] == "cmd"
                              and prev[1].startswith("REST ") and s.pasv_port is not None)
                if after_rest:
                    # the restart offset was for the command that failed: the same command given again at once (same listener, no
                    # other command in between) transfers the whole file
                    mon["retry_after_rest"] = mon.get("retry_after_rest", 0) + 1
                    s.keep_data_on_refusal = False
                    await s.step(list(st))
                    rc_ = [c for c in s.outcomes[-1] if len(c) == 3 and c.isdigit()]
                    if rc_[-1:] == ["226"]:
                        if st[1] == "RETR":
                            whole = corpus_tree([""]).get(st[2])
                            got_ = s.downloads[-1][2] if s.downloads else None
                            if got_ != whole:
                                viol.append({"key": f"restart-offset-outlives-failed-command:{site}",
                                             "msg": f"{where}: REST, the transfer command failed (451); given again at once it delivered "
                                                    f"{len(got_ or b'')} of {len(whole or b'')} bytes"})
                        else:
                            stored = w.tree().get(st[2])
                            want_ = payload_bytes(st[3], st[6] if len(st) > 6 else 0)
                            if stored != want_:
                                viol.append({"key": f"restart-offset-outlives-failed-command:{site}",
                                             "msg": f"{where}: REST, the upload command failed (451); given again at once it stored "
                                                    f"{len(stored) if isinstance(stored, bytes) else stored} bytes, sent {len(want_)}"})
                    elif not (rc_ and rc_[0][0] == "5"):
                        viol.append({"key": f"retry-refused:{site}", "msg": f"{where}: the same command given again answered {s.outcomes[-1]}"})
                    before = len(s.outcomes)
                    reuse = False
                    probe = PROBE
                if st[0] == "xfer" and st[1] in ("STOR", "APPE") and not marks and s.alive and not after_rest:
                    mon["retry_same_command"] = mon.get("retry_same_command", 0) + 1
                    if not reuse or True:
                        await s.step(["epsv"])
                    await s.step(list(st))
                    redo = [c for c in s.outcomes[-1] if len(c) == 3 and c.isdigit()]
                    if redo[-1:] != ["226"] and not (redo and redo[0][0] == "5" and redo[0][:2] != "45"):
                        viol.append({"key": f"retry-refused:{site}", "msg": f"{where}: the same command given again answered {s.outcomes[-1]}"})
                    before = len(s.outcomes)
                    reuse = False
                    probe = PROBE
                listing_ok = True
                for st2 in probe:
                    if st2 == ["quit"] and s.alive:
                        # ... and a listing of another directory holds exactly its entries (nothing of a listing that failed half-way
                        # is left anywhere)
                        n_before = len(s.outcomes)
                        if await s.step(["epsv"]) and await s.step(["xfer", "MLSD", "/dir"]):
                            tree_now = w.tree()
                            want_names = sorted(k.rsplit("/", 1)[1] for k in tree_now if k.startswith("/dir/") and k.count("/") == 2)
                            raw_ = s.downloads[-1][2] if s.downloads else b""
                            got_names = sorted(ln.partition(b"; ")[2].decode("utf-8", "replace") for ln in raw_.split(b"\r\n") if ln)
                            mon["probe_listing"] = mon.get("probe_listing", 0) + 1
                            if got_names != want_names:
                                listing_ok = False
                                viol.append({"key": f"probe-listing-differs:{site}",
                                             "msg": f"{where}: MLSD /dir afterwards lists {got_names[:8]} ({len(got_names)}), the directory holds "
                                                    f"{want_names[:8]} ({len(want_names)})"})
                        del s.outcomes[n_before:]
                    if not await s.step(st2):
                        break
                got = s.outcomes[before:]
                want = [["257"], ["229"], ["150", "226", "sent"], ["229"], ["150", "226", "eof"], ["221", "EOF"]]
                if reuse:
                    want = [x for x in want if x != ["229"]]
                    mon["probe_reuses_listener"] = 1
                probe_dl = [d_ for d_ in s.downloads if d_[0] == "RETR" and d_[1] == "/probe.bin"]
                content_ok = bool(probe_dl) and probe_dl[-1][2] == payload_bytes(1234)
                if got != want or not content_ok:
                    viol.append({"key": f"probe-failed:{site}", "msg": f"{where}: follow-up on the same session gave {got}"})
        else:
            # the fault never fired (k beyond the calls of this run): finish orderly
            if s.alive:
                await s.step(["quit"])
        if by is not None:
            await asyncio.wait([by_task], timeout=200)
            mon["bystander"] = 1
        s.peer.cut("fin")
        if by is not None:
            by.peer.cut("fin")
        await net.quiesce(2.0)
        leaks = w.leaks()
        for leak in leaks:
            viol.append({"key": f"leak-after-fault:{site}", "msg": f"{leak} after the sessions ended (fault at {site})"})
        await w.stop()
        return {"violations": viol, "monitors": mon, "ncalls": ncalls, "site": site,
                "by": by.peer.normalized() if by is not None else None,
                "sig": sig_of([plan["script"], site, plan.get("exc"), s.flat_codes()]),
                "nontrivial": fired["step"] is not None, "codes": s.outcomes}
    finally:
        w.cleanup()


def run_plan(plan):
    rearm()
    async def main(net, hyg):
        return await execute(net, hyg, plan)
    res, info = W.run(main, seed=plan.get("seed", 0), net_kwargs=dict(mss=plan.get("mss", 1460), latency=0.001))
    if res is None:
        return W.failed(info)
    le = [e for e in info["hygiene"].serious_loop_errors()]
    if le:
        res["violations"].append({"key": f"exception-reached-loop:{res.get('site')}", "msg": f"{le[:2]}"})
    return res


BURSTS = [
    # (pre-steps, burst, op that only ONE command of the burst uses, index of that command, replies without a fault)
    ([["cmd", "CWD /dir"]], ["DELE /f.bin", "CDUP", "PWD", "XYZZY"], "unlink", 0, ["250", "250", "257", "502"]),
    ([], ["PWD", "MKD /pp", "SYST", "PWD"], "mkdir", 1, ["257", "257", "215", "257"]),
    ([["cmd", "MKD /dir2"]], ["XYZZY", "PWD", "RMD /dir2", "TYPE I"], "rmdir", 2, ["502", "257", "250", "200"]),
    ([], ["RNFR /f.bin", "RNTO /g.bin", "PWD", "MLST /dir"], "rename", 1, ["350", "250", "257", "250"]),
    ([], ["TYPE I", "MLST /f.bin", "PWD", "XYZZY", "SYST"], "stat", 1, ["200", "250", "257", "502", "215"]),
    ([], ["MKD /q1", "PWD"], "mkdir", 0, ["257", "257"]),
]


async def execute_burst(net, hyg, plan):
    """a back-end failure in one command of a burst written in one piece: *that* command - by position - is answered 451 and
    every other command of the burst gets the reply it gets in the fault-free run"""
    pre, lines, op, idx, _expect = BURSTS[plan["burst"]]
    w = W.World(net, tree=corpus_tree([""]), users=corpus_users, backend=plan.get("backend", "memory"))
    await w.start()
    try:
        if plan.get("fault"):
            mk = EXCS[plan.get("exc", "eio")]
            w.ctl.fail = lambda op_, path, n, sess=None: mk() if op_ == op else None
        if plan.get("delay"):
            w.ctl.delay = lambda op_, path, n: plan["delay"] if (op_ == op or plan.get("delay_all")) else 0
        s = Session(net, 2121, name="burst")
        await s.run([["connect"], ["login"]] + pre + [["pipeline", lines], ["cmd", "PWD"], ["quit"]])
        codes = s.outcomes[2 + len(pre)] if len(s.outcomes) > 2 + len(pre) else []
        tail = s.outcomes[3 + len(pre):]
        s.peer.cut("fin")
        await net.quiesce(1.0)
        leaks = w.leaks()
        await w.stop()
        return {"codes": codes, "tail": tail, "leaks": leaks}
    finally:
        w.cleanup()


async def execute_repeat(net, hyg, plan):
    """the same failure many times in one session (an upload onto a directory name: the open step fails after the 150), good
    transfers in between and at the end: the 80th failure is contained like the first"""
    w = W.World(net, tree=corpus_tree([""]), users=corpus_users, backend=plan.get("backend", "memory"))
    await w.start()
    viol = []
    try:
        s = Session(net, 2121, name="repeat")
        await s.run([["connect"], ["login"], ["cmd", "TYPE I"], ["epsv"]])
        n = plan["n"]
        for i in range(n):
            verb = plan["verbs"][i % len(plan["verbs"])]
            ok = await s.step(["xfer", verb, "/dir", 5] if verb in ("STOR", "APPE") else ["xfer", "RETR", "/dir"])
            codes = [c for c in s.outcomes[-1] if len(c) == 3 and c.isdigit()]
            if not ok or not (codes == ["150", "451"] or (len(codes) == 1 and codes[0][0] in "45")):
                viol.append({"key": "repeated-failure-not-contained", "msg": f"failure number {i + 1} of the session ({verb} onto a directory): "
                                                                             f"{s.outcomes[-1]} (the first one gave {s.outcomes[4] if len(s.outcomes) > 4 else None})"})
                break
            if i % 16 == 15 and s.alive:
                await s.step(["xfer", "STOR", f"/ok{i}.bin", 100])
                if [c for c in s.outcomes[-1] if c.isdigit()] != ["150", "226"]:
                    viol.append({"key": "transfer-fails-after-repeated-failures", "msg": f"after {i + 1} failed transfers a good upload gave {s.outcomes[-1]}"})
                    break
        if s.alive and not viol:
            await s.step(["xfer", "STOR", "/final.bin", 1234])
            await s.step(["xfer", "RETR", "/final.bin"])
            good = [[c for c in o if c.isdigit()] for o in s.outcomes[-2:]]
            if good != [["150", "226"], ["150", "226"]] or not s.downloads or s.downloads[-1][2] != payload_bytes(1234):
                viol.append({"key": "transfer-fails-after-repeated-failures", "msg": f"after {n} failed transfers: {s.outcomes[-2:]}"})
            await s.step(["quit"])
        s.peer.cut("fin")
        await net.quiesce(1.0)
        for leak in w.leaks():
            viol.append({"key": "leak-after-fault:repeat", "msg": leak})
        await w.stop()
        return {"violations": viol, "monitors": {"repeated_failures": n, "fault_fired": n, "reply_451": n, "probe": 1}, "nontrivial": True,
                "sig": sig_of(["repeat", plan]), "site": "repeat", "codes": s.outcomes[-4:]}
    finally:
        w.cleanup()


def run_burst(plan):
    rearm()
    async def main(net, hyg):
        return await execute_burst(net, hyg, plan)
    res, info = W.run(main, seed=plan.get("seed", 0), net_kwargs=dict(mss=plan.get("mss", 1460), latency=0.001))
    if res is None:
        return W.failed(info)
    res["loop_errors"] = info["hygiene"].serious_loop_errors()
    return res


def run_case(case):
    out = {"violations": [], "monitors": {}, "sigs": [], "stats": {}}
    base = dict(case["plan"])
    if case["kind"] == "repeat":
        rearm()

        async def main_r(net, hyg):
            return await execute_repeat(net, hyg, base)
        res, info = W.run(main_r, seed=base.get("seed", 0), net_kwargs=dict(mss=1460, latency=0.001))
        if res is None:
            return W.failed(info)
        for v in res["violations"]:
            v["replay_case"] = case
        return {"violations": res["violations"], "monitors": res["monitors"], "sigs": [res["sig"]], "sample": {"plan": base, "codes": res["codes"]}}
    if case["kind"] == "burst":
        pre, lines, op, idx, expect = BURSTS[base["burst"]]
        good = run_burst(dict(base, fault=False))
        bad = run_burst(dict(base, fault=True))
        for r in (good, bad):
            if r.get("inconclusive"):
                return r
            if r.get("violations"):      # deadlock of the simulation = hang
                for v in r["violations"]:
                    v["replay_case"] = case
                return {"violations": r["violations"], "monitors": {}, "sigs": []}
        out["monitors"] = {"burst_position": 1, "fault_fired": 1, "reply_451": 1, "probe": 1}
        want = list(expect)
        want[idx] = "451"
        where = f"burst {lines} with every {op} failing ({base.get('exc', 'eio')}, delay {base.get('delay', 0)})"
        if bad["codes"] != want:
            kind = "reply-order" if sorted(bad["codes"]) == sorted(want) else "wrong-reply"
            out["violations"].append({"key": f"burst-{kind}:{op}",
                                      "msg": f"{where}: replies {bad['codes']}, expected {want} (the failing command is number {idx}; "
                                             f"fault-free replies {good['codes']})", "replay_case": case})
        if bad["tail"] != good["tail"]:
            out["violations"].append({"key": f"probe-failed:burst/{op}", "msg": f"{where}: afterwards {bad['tail']} instead of {good['tail']}",
                                      "replay_case": case})
        for leak in bad["leaks"]:
            out["violations"].append({"key": f"leak-after-fault:burst/{op}", "msg": f"{where}: {leak}", "replay_case": case})
        if bad["loop_errors"]:
            out["violations"].append({"key": f"exception-reached-loop:burst/{op}", "msg": str(bad["loop_errors"][:2]), "replay_case": case})
        out["sigs"].append(sig_of(["burst", base, bad["codes"]]))
        out["sample"] = {"burst": lines, "failing_op": op, "replies_with_fault": bad["codes"], "replies_fault_free": good["codes"]}
        return out

    def merge(res, plan, label):
        if res.get("inconclusive"):
            out["inconclusive"] = f"{label}: {res['inconclusive']}"
            out["trace"] = res.get("trace", "")
            return False
        for k, v in res["monitors"].items():
            out["monitors"][k] = out["monitors"].get(k, 0) + v
        if res["nontrivial"]:
            out["sigs"].append(res["sig"])
        for v in res["violations"]:
            v["replay_case"] = {"kind": "single", "plan": plan}
            v["msg"] = f"[{plan['script']}] " + v["msg"]
            out["violations"].append(v)
        return True

    if case["kind"] == "single":
        res = run_plan(base)
        merge(res, base, "single")
        out["sample"] = {"plan": base, "codes": res.get("codes"), "site": res.get("site")}
        return out
    res0 = run_plan(dict(base, k=None, op_all=None))
    if not merge(res0, base, "fault-free"):
        return out
    N = res0["ncalls"]
    solo_by = None
    if base.get("bystander"):
        solo_by = res0["by"]
    sites = {}
    fired = 0
    if case["kind"] == "enum_k":
        for k in range(1, min(N, case.get("max_k", N)) + 1, case.get("stride", 1)):
            plan = dict(base, k=k)
            res = run_plan(plan)
            if not merge(res, plan, f"k={k}"):
                return out
            fired += res["monitors"]["fault_fired"]
            sites[res["site"]] = sites.get(res["site"], 0) + 1
            if solo_by is not None and res["by"] != solo_by:
                out["violations"].append({"key": f"bystander-disturbed:{res['site']}",
                                          "msg": f"[{base['script']}] fault at {res['site']}: bystander transcript differs from "
                                                 f"its transcript next to a fault-free victim",
                                          "replay_case": {"kind": "single", "plan": plan}})
    else:
        for op in case["ops"]:
            plan = dict(base, op_all=op)
            res = run_plan(plan)
            if not merge(res, plan, f"all:{op}"):
                return out
            fired += res["monitors"]["fault_fired"]
            sites[res["site"]] = sites.get(res["site"], 0) + 1
    out["stats"]["fault_positions_fired"] = fired
    out["stats"]["call_sites_seen"] = sorted(str(x) for x in sites)
    out["sample"] = {"script": base["script"], "exc": base.get("exc"), "backend_calls_in_fault_free_run": N,
                     "faults_fired": fired, "call_sites": {str(k): v for k, v in sites.items()}}
    return out


def gen_cases(tier, seed):
    cases = []
    names = QUICK_SCRIPTS if tier == "quick" else [n for n in sorted(corpus()) if n not in ("login_quit", "nologin", "login_pw", "login_bad_pw", "abor_idle", "misc", "flood", "noconnect_nowait", "login_retry")]
    excs = ["eio", "fault", "timeout", "bare", "oddtext"] if tier == "quick" else ["eio", "enospc", "eacces", "fault", "value", "timeout", "bare", "oddtext"]
    for name in names:
        for i, exc in enumerate(excs):
            cases.append({"kind": "enum_k", "plan": {"script": name, "exc": exc, "seed": seed}})
    from ..spyfs import OPS
    for name in names:
        cases.append({"kind": "enum_ops", "ops": list(OPS), "plan": {"script": name, "exc": "eio", "seed": seed}})
    # time-outs configured, and a download larger than every buffer on the way: the failure comes while the data connection
    # still holds unsent bytes
    for name in ("retr_huge", "two_transfers") if tier == "quick" else ("retr_huge", "two_transfers", "list", "mlsd", "retr_rest"):
        for kw in ({"socket_timeout": 10},) if tier == "quick" else ({"socket_timeout": 10}, {"socket_timeout": 3, "idle_timeout": 20}):
            cases.append({"kind": "enum_k", "stride": 7 if tier == "quick" and name == "retr_huge" else 1,
                          "plan": {"script": name, "exc": "eio", "seed": seed, "server_kwargs": kw}})
    # a server whose encoding cannot carry the operating system's message
    for name in ("mkd_rmd", "retr_pasv", "stor_pasv", "mlsd"):
        cases.append({"kind": "enum_k", "plan": {"script": name, "exc": "oddtext", "seed": seed, "server_kwargs": {"encoding": "latin-1"}}})
    # a download to a peer that has stopped reading (socket_timeout configured): the storage fails while unsent data sits in the
    # server's buffers
    stalled = [["connect"], ["login"], ["pasv"], ["xfer_stall", "RETR", "/huge.bin", 20000, 3.5], ["cmd", "PWD"], ["quit"]]
    cases.append({"kind": "enum_k", "stride": 2 if tier == "quick" else 1, "max_k": 14,
                  "plan": {"script": "retr_stalled", "inline": stalled, "exc": "eio", "seed": seed, "server_kwargs": {"socket_timeout": 3}}})
    # the same failure 80 times in one session
    for backend in ("memory", "pathio") if tier == "quick" else ("memory", "pathio", "async"):
        for verbs in (["STOR"], ["STOR", "APPE", "RETR"]):
            cases.append({"kind": "repeat", "plan": {"n": 80, "verbs": verbs, "backend": backend, "seed": seed}})
    # the real executor-based back end WITHOUT the spy around it, path_timeout configured: the k-th job it hands to its executor
    # takes longer than that, or fails inside the thread - what the back end's own decorators make of it is what the server gets
    for name in (("mlsd", "stor_pasv", "retr_pasv", "mkd_rmd") if tier == "quick" else
                 ("mlsd", "list", "stor_pasv", "retr_pasv", "mkd_rmd", "rename", "mlst", "appe", "walk", "dele", "retr_rest", "two_transfers")):
        for raw in ("slow", "eio"):
            cases.append({"kind": "enum_k", "stride": 2 if tier == "quick" else 1,
                          "plan": {"script": name, "raw": raw, "exc": "eio", "slow": 2.0, "backend": "async", "seed": seed,
                                   "server_kwargs": {"path_timeout": 0.5}}})
    # a download whose storage read fails 0..14 loop iterations after its ABOR arrived: replies stay in the order of the commands
    for d in range(0, 15):
        for backend in ("memory", "pathio"):
            cases.append({"kind": "single", "plan": {"script": "abor_mid", "exc": "eio", "abor_race": d, "backend": backend, "seed": seed}})
    # with a bystander on another prefix
    pairs = [("retr_pasv", "stor_pasv"), ("mlsd", "retr_pasv"), ("stor_pasv", "list")]
    if tier == "thorough":
        rng = random.Random(seed)
        pairs += [(rng.choice(names), rng.choice(names)) for _ in range(10)]
    for a, b in pairs:
        cases.append({"kind": "enum_k", "plan": {"script": a, "bystander": b, "exc": "eio", "seed": seed}})
    # bursts: the failing command is known by position
    for b in range(len(BURSTS)):
        for delay in (0, 0.01):
            for backend in (("memory",) if tier == "quick" else ("memory", "pathio")):
                for exc in (("eio",) if tier == "quick" else ("eio", "timeout", "fault")):
                    cases.append({"kind": "burst", "plan": {"burst": b, "delay": delay, "exc": exc, "backend": backend, "seed": seed}})
                    if delay and tier == "thorough":
                        cases.append({"kind": "burst", "plan": {"burst": b, "delay": delay, "delay_all": True, "exc": exc, "backend": backend,
                                                                "seed": seed, "mss": 7}})
    if tier == "thorough":
        for name in names:
            cases.append({"kind": "enum_k", "plan": {"script": name, "exc": "eio", "seed": seed, "mss": 64,
                                                     "backend_delay": [0, 0.0004, 0.002], "block_size": 512}})
        for name in ["stor_pasv", "retr_pasv", "mlsd", "list", "rename", "mkd_rmd"]:
            cases.append({"kind": "enum_k", "plan": {"script": name, "exc": "eio", "seed": seed, "backend": "pathio"}})
        for name in ["stor_pasv", "retr_pasv", "mlsd"]:
            cases.append({"kind": "enum_k", "stride": 3, "plan": {"script": name, "exc": "eio", "seed": seed, "backend": "async"}})
    return cases
