"""C20 - passwords never reach the logs."""

import asyncio
import logging
import random

from .. import boot  # noqa: F401
from .. import world as W
from ..rawpeer import RawPeer
from ..runner import sig_of
from ..rawpeer import ProtocolGarbage as aioftp_garbage
import aioftp

PROPERTY = "C20"
LEVEL = "exploration"
RULE = ("passwords from a generator biased to blanks (inside, leading), non-ASCII, '%s', '%(x)s', '{}', backslashes, quotes, "
        "1-2 character and long strings; for each, twelve login scenarios (aioftp client accepted / rejected / followed by "
        "commands; raw peer with verb spelled PASS / pass / PaSs accepted and rejected; PASS out of sequence; re-login; the user's "
        "or the server's connection limit reached by password sessions and one more login; back-end failure, unknown verb and "
        "undecodable bytes after an accepted login; connection reset right after PASS) with every LogRecord of every logger "
        "captured at DEBUG.  (a) a distinctive password (>= 4 chars, absent from the log of the same scenario run with "
        "another password) is never a substring of any record (message, args, exception text); (b) non-interference: two runs "
        "that differ only in the password (same length) produce identical log streams.  distinct = distinct (password class, "
        "scenario) pairs; non-trivial = the password contains a non-alphanumeric character or is shorter than 3.")
RULE += ("  " + "Also: passwords with blanks at the ends and with latin-1 letters; connection limits reached; back-end failure, unknown verb, undecodable bytes after login; reset right after PASS; user managers whose authenticate times out or fails; shutdown with a password session connected; the client's socket_timeout expiring inside PASS; a PASS line in a foreign encoding; tracebacks of records are searched too.")
RULE += ("  " + 'Also (round 6): aioftp client whose server hangs up without a reply to PASS (user manager raises; scripted server closing silently, inside a reply line, or after bytes that are no reply).')
RULE += ("  " + 'Also: the whole login and further commands in one burst with a suspending user manager; the connection ending inside the PASS line.')
RULE += ("  " + 'Also (round 7): a server that asks for the account before (332, then 331) or after the password.')
RULE += ("  " + 'Also (round 8): a PASS line beyond the stream limit arriving in two pieces.')
RULE += ("  " + 'Also (round 9): a client whose encoding cannot carry the password it is given.')
RULE += ("  " + 'Also (round 10): login() with a password that has a line break in it (nothing behind the break travels as a command of its own); a latin-1 client with a password beyond ASCII against the utf-8 server (needle: the longest plain run; the twin keeps the letters beyond ASCII).')
RULE += ("  " + 'Also (round 11): the same PASS line five times; the data-port pool exhausted by sessions of the account (a warning that names the user); log records of every level, not DEBUG and above.')
ASSUMPTIONS = ["passwords with CR/LF are not carriable by the line protocol and are excluded; blanks at the ends are sent (the server "
               "strips them, so such logins are rejected) and searched for without them",
               "all loggers propagate to the root logger (true for aioftp.client / aioftp.server)"]
REQUIRED_MONITORS = ["substring_search", "non_interference", "records_seen"]
ANCHOR_FUNCTIONS = ['server.py:Server.parse_command', 'client.py:Client.login', 'client.py:BaseClient.command']
EXHAUSTIVE = {"quick": False, "thorough": False}

ALPHA = "abcdefghijklmnopqrstuvwxyzABCDEFGHIJKLMNOPQRSTUVWXYZ0123456789"
SPECIALS = [" ", "  ", "%s", "%d", "%(x)s", "{}", "{0}", "\\", "\\n", "\"", "'", ";", "=", "-", "*", "***", "ü", "ß", "пароль", "密", "😀", "\t",
            ":", "@", "/", "..", "PASS ", "pass", "230", "%", "%%"]
SCENARIOS = ["client_ok", "client_bad", "raw_PASS_ok", "raw_pass_ok", "raw_PaSs_bad", "raw_out_of_sequence", "raw_relogin",
             "raw_user_limit", "raw_server_limit", "raw_errors_after_login", "raw_cut_in_pass", "client_ok_ops", "raw_slow_manager",
             "raw_failing_manager", "raw_close_while_logged_in", "client_timeout_in_pass", "raw_latin1_pass", "raw_pipelined_pass",
             "raw_pass_no_newline", "client_failing_manager", "client_hangup_after_pass", "client_acct_first", "raw_long_pass_two_pieces", "client_narrow_encoding",
             "client_line_break", "client_latin1_to_utf8_server",
             "raw_pass_repeated", "raw_ports_exhausted"]


def gen_password(rng):
    r = rng.random()
    if r < 0.12:
        return rng.choice(ALPHA) * rng.choice([1, 2]) if rng.random() < 0.5 else rng.choice(["a", "ab", "%", " x", "ü", "*"])
    n = rng.randint(3, 12)
    parts = []
    while sum(map(len, parts)) < n:
        parts.append(rng.choice(SPECIALS) if rng.random() < 0.45 else "".join(rng.choice(ALPHA) for _ in range(rng.randint(1, 4))))
    p = "".join(parts)
    p = p.rstrip()  # trailing whitespace cannot be carried
    if not p:
        p = "x y"
    if rng.random() < 0.15:
        p = " " + p
    return p


def twin(p, rng):
    """another password of the same length, differing in every character, same character classes"""
    out = []
    for ch in p:
        if ch == " " or ch == "\t":
            out.append(ch)  # blanks stay blanks (keeps the carriable shape); at least one other char differs
        elif ch.isascii():
            c = ch
            while c == ch:
                c = rng.choice(ALPHA)
            out.append(c)
        else:
            out.append("ю" if ch != "ю" else "я")
    t = "".join(out)
    return t if t != p else None


async def scenario(net, hyg, name, password):
    stored = password if not name.endswith("_bad") else password + "X"
    users = [aioftp.User("alice", stored, base_path="/", **({"maximum_connections": 1} if name == "raw_user_limit" else {})),
             aioftp.User("bob", None, base_path="/")]
    if name in ("raw_slow_manager", "raw_failing_manager", "client_timeout_in_pass", "raw_pipelined_pass", "client_failing_manager"):
        # a user manager of the documented kind: get_user/authenticate decorated with with_timeout, timeout from the base class
        class Manager(aioftp.MemoryUserManager):
            @aioftp.with_timeout
            async def authenticate(self, user, password):
                if name in ("raw_slow_manager", "client_timeout_in_pass"):
                    await asyncio.sleep(1.0)
                elif name == "raw_pipelined_pass":
                    await asyncio.sleep(0.05)
                elif name in ("raw_failing_manager", "client_failing_manager"):
                    raise RuntimeError("directory service unreachable")
                return await super().authenticate(user, password)
        users = Manager(users, timeout=0.2 if name not in ("client_timeout_in_pass", "raw_pipelined_pass") else 5)
    w = W.World(net, users=users, **({"maximum_connections": 1} if name == "raw_server_limit" else {}),
                **({"data_ports": [41001]} if name == "raw_ports_exhausted" else {}))
    await w.start()
    outcome = []
    try:
        if name == "client_ok_ops":
            c = aioftp.Client(path_io_factory=aioftp.MemoryPathIO)
            await c.connect("127.0.0.1", 2121)
            try:
                await c.login("alice", password)
                await c.make_directory("/d")
                outcome.append(len(await c.list("/")))
                try:
                    await c.change_directory("/nope")
                except aioftp.StatusCodeError as e:
                    outcome.append("rejected:" + str(e.received_codes[-1]))
                await c.quit()
            except aioftp.StatusCodeError as e:
                outcome.append("login-rejected:" + str(e.received_codes[-1]))
                c.close()
        elif name == "raw_pass_repeated":
            # the same PASS line several times in a row (accepted the first time when the password is right), then other lines
            p1 = RawPeer(net, 2121)
            await p1.connect()
            outcome.append((await p1.cmd("USER alice")).code)
            for _ in range(5):
                outcome.append((await p1.cmd(f"PASS {password}")).code)
            outcome.append((await p1.cmd("PWD")).code)
            await p1.cmd("QUIT")
            p1.cut("fin")
        elif name == "raw_ports_exhausted":
            # one data port, held by a session of the same account: the next PASV / EPSV of a logged-in session finds none
            held = []
            for verb_ in ("PASV", "EPSV", "PASV"):
                pp = RawPeer(net, 2121)
                await pp.connect()
                outcome.append((await pp.cmd("USER alice")).code)
                outcome.append((await pp.cmd(f"PASS {password}")).code)
                r = await pp.cmd(verb_)
                outcome.append(r.code if r not in (None, "EOF") else str(r))
                held.append(pp)
            for pp in held:
                pp.cut("fin")
        elif name in ("raw_user_limit", "raw_server_limit"):
            # the limit of the user / of the server is reached by sessions that logged in with the password
            p1 = RawPeer(net, 2121)
            await p1.connect()
            outcome.append((await p1.cmd("USER alice")).code)
            outcome.append((await p1.cmd(f"PASS {password}")).code)
            p2 = RawPeer(net, 2121)
            try:
                await p2.connect()
                r = await p2.cmd("USER alice")
                outcome.append(r.code if r not in (None, "EOF") else str(r))
                if r not in (None, "EOF"):
                    r = await p2.cmd(f"PASS {password}")
                    outcome.append(r.code if r not in (None, "EOF") else str(r))
            except (ConnectionError, OSError, aioftp_garbage) as e:
                outcome.append(type(e).__name__)
            p2.cut("fin")
            await p1.cmd("QUIT")
            p1.cut("fin")
        elif name == "raw_errors_after_login":
            # after an accepted login: a back-end failure (451), an unknown verb, then undecodable bytes (the dispatcher
            # logs the exception and drops the session)
            w.ctl.fail = lambda op, path, n, sess=None: OSError(5, "Input/output error") if op == "mkdir" else None
            p = RawPeer(net, 2121)
            await p.connect()
            outcome.append((await p.cmd("USER alice")).code)
            outcome.append((await p.cmd(f"PASS {password}")).code)
            outcome.append((await p.cmd("MKD /x")).code)
            outcome.append((await p.cmd("FOO bar")).code)
            p.send_raw(b"CWD \xff\xfe\r\n") if hasattr(p, "send_raw") else p.writer.write(b"CWD \xff\xfe\r\n")
            r = await p.read_reply(wait=2)
            outcome.append(r.code if r not in (None, "EOF") else str(r))
            p.cut("fin")
        elif name == "client_failing_manager":
            # the server drops the session without any reply to PASS (its user manager raised); the client sees the hang-up
            c = aioftp.Client(path_io_factory=aioftp.MemoryPathIO)
            await c.connect("127.0.0.1", 2121)
            try:
                await c.login("alice", password)
                outcome.append("ok")
            except (asyncio.TimeoutError, aioftp.StatusCodeError, ConnectionError) as e:
                outcome.append(type(e).__name__)
            c.close()
        elif name == "client_hangup_after_pass":
            # a scripted server that ends the session right after PASS: silently, inside a reply line, or with bytes that
            # are no reply at all
            how = len(password) % 3

            async def handle(reader, writer):
                writer.write(b"220 hi\r\n")
                await reader.readline()
                writer.write(b"331 password\r\n")
                await reader.readline()
                if how == 1:
                    writer.write(b"5")
                elif how == 2:
                    writer.write(b"\xff\xfe not a reply\r\n")
                writer.close()
            srv = await asyncio.start_server(handle, "127.0.0.1", 2122)
            c = aioftp.Client(path_io_factory=aioftp.MemoryPathIO)
            await c.connect("127.0.0.1", 2122)
            try:
                await c.login("alice", password)
                outcome.append("ok")
            except Exception as e:
                outcome.append(type(e).__name__)
            c.close()
            srv.close()
        elif name == "client_narrow_encoding":
            # a client whose encoding cannot carry every character of the password (ascii, or latin-1 when the password allows
            # ascii): the login fails on the client's side or at the server, the log stays clean
            enc = "ascii" if not password.isascii() else "latin-1"
            c = aioftp.Client(path_io_factory=aioftp.MemoryPathIO, encoding=enc)
            await c.connect("127.0.0.1", 2121)
            try:
                await c.login("alice", password)
                outcome.append("ok")
                await c.quit()
            except Exception as e:
                outcome.append(type(e).__name__)
                c.close()
        elif name == "client_latin1_to_utf8_server":
            # a latin-1 client, a password with letters beyond ASCII, a utf-8 server: the PASS line cannot be decoded there and the
            # session ends by that exception - whatever is logged about it does not hold the line
            try:
                ok_ = bool(password.encode("latin-1")) and not password.isascii()
            except UnicodeEncodeError:
                ok_ = False
            if not ok_:
                outcome.append("n/a")
            else:
                c = aioftp.Client(path_io_factory=aioftp.MemoryPathIO, encoding="latin-1")
                await c.connect("127.0.0.1", 2121)
                try:
                    await c.login("alice", password)
                    outcome.append("ok")
                    await c.quit()
                except Exception as e:
                    outcome.append(type(e).__name__)
                    c.close()
        elif name == "client_line_break":
            # a password with a line break in it, given to the client's login(): the line protocol cannot carry it, and what
            # follows the break must not travel (and be handled, answered and logged on both sides) as a command of its own
            k = max(1, len(password) // 3)
            broken = password[:k] + ("\r\n" if len(password) % 2 else "\n") + password[k:]
            c = aioftp.Client(path_io_factory=aioftp.MemoryPathIO)
            await c.connect("127.0.0.1", 2121)
            try:
                await c.login("alice", broken)
                outcome.append("ok")
            except Exception as e:
                outcome.append(type(e).__name__)
            try:
                await asyncio.wait_for(c.quit(), 5)
            except Exception as e:
                outcome.append("quit:" + type(e).__name__)
                c.close()
        elif name == "client_acct_first":
            # a server that wants the account before the password (USER -> 332, ACCT -> 331, PASS -> 230 / 530), and one that
            # wants it afterwards (USER -> 331, PASS -> 332, ACCT -> 230)
            first = len(password) % 2 == 0

            async def handle2(reader, writer):
                writer.write(b"220 hi\r\n")
                script = [b"332 account\r\n", b"331 password\r\n", b"230 in\r\n"] if first else [b"331 password\r\n", b"332 account\r\n", b"230 in\r\n"]
                for rep in script:
                    if not await reader.readline():
                        break
                    writer.write(rep)
                await reader.readline()
                writer.write(b"221 bye\r\n")
                writer.close()
            srv = await asyncio.start_server(handle2, "127.0.0.1", 2122)
            c = aioftp.Client(path_io_factory=aioftp.MemoryPathIO)
            await c.connect("127.0.0.1", 2122)
            try:
                await c.login("alice", password, "acct-7")
                outcome.append("ok")
                await c.quit()
            except Exception as e:
                outcome.append(type(e).__name__)
                c.close()
            srv.close()
        elif name == "client_timeout_in_pass":
            # the client's own socket_timeout expires while it waits for the answer to PASS
            c = aioftp.Client(path_io_factory=aioftp.MemoryPathIO, socket_timeout=0.3)
            await c.connect("127.0.0.1", 2121)
            try:
                await c.login("alice", password)
                outcome.append("ok")
            except (asyncio.TimeoutError, aioftp.StatusCodeError, ConnectionError) as e:
                outcome.append(type(e).__name__)
            c.close()
        elif name == "raw_pipelined_pass":
            # the whole login and further commands in one burst, the password check really suspends
            p = RawPeer(net, 2121)
            await p.connect()
            p.writer.write(f"USER alice\r\nPASS {password}\r\nPWD\r\nMKD /x\r\nPASS {password}\r\nSYST\r\n".encode())
            for _ in range(6):
                r = await p.read_reply(wait=3)
                outcome.append(r.code if r not in (None, "EOF") else str(r))
                if r in (None, "EOF"):
                    break
            p.cut("fin")
        elif name == "raw_long_pass_two_pieces":
            # a PASS line longer than the stream limit whose end (here: the password proper) arrives in a later piece
            p = RawPeer(net, 2121)
            await p.connect()
            outcome.append((await p.cmd("USER alice")).code)
            p.writer.write(b"PASS " + b"A" * 70000)
            await asyncio.sleep(0.05)
            try:
                p.writer.write(password.encode() + b"\r\nPWD\r\n")
            except Exception:
                pass
            for _ in range(3):
                r = await p.read_reply(wait=2)
                outcome.append(r.code if r not in (None, "EOF") else str(r))
                if r in (None, "EOF"):
                    break
            p.cut("fin")
        elif name == "raw_pass_no_newline":
            # the connection ends inside the PASS line
            p = RawPeer(net, 2121)
            await p.connect()
            outcome.append((await p.cmd("USER alice")).code)
            p.writer.write(f"PASS {password}".encode() + (b"\r" if len(password) % 2 else b""))
            await asyncio.sleep(0.01)
            p.cut("fin")
            await asyncio.sleep(0.05)
        elif name == "raw_latin1_pass":
            # the peer encodes its lines with another codec than the server's
            p = RawPeer(net, 2121)
            await p.connect()
            outcome.append((await p.cmd("USER alice")).code)
            try:
                raw = password.encode("latin-1")
            except UnicodeEncodeError:
                raw = password.encode("utf-16-le")
            p.writer.write(b"PASS " + raw + b"\r\n")
            r = await p.read_reply(wait=2)
            outcome.append(r.code if r not in (None, "EOF") else str(r))
            p.cut("fin")
        elif name in ("raw_slow_manager", "raw_failing_manager"):
            p = RawPeer(net, 2121)
            await p.connect()
            outcome.append((await p.cmd("USER alice")).code)
            r = await p.cmd(f"PASS {password}", wait=5)
            outcome.append(r.code if r not in (None, "EOF") else str(r))
            p.cut("fin")
        elif name == "raw_close_while_logged_in":
            p = RawPeer(net, 2121)
            await p.connect()
            outcome.append((await p.cmd("USER alice")).code)
            outcome.append((await p.cmd(f"PASS {password}")).code)
            outcome.append((await p.cmd("PWD")).code)
            await w.stop()          # Server.close() with the password session still connected
            p.cut("fin")
        elif name == "raw_cut_in_pass":
            p = RawPeer(net, 2121)
            await p.connect()
            outcome.append((await p.cmd("USER alice")).code)
            p.writer.write(f"PASS {password}\r\n".encode())
            p.cut("rst")
        elif name.startswith("client"):
            c = aioftp.Client(path_io_factory=aioftp.MemoryPathIO)
            await c.connect("127.0.0.1", 2121)
            try:
                await c.login("alice", password)
                outcome.append("ok")
                await c.quit()
            except aioftp.StatusCodeError as e:
                outcome.append("rejected:" + str(e.received_codes[-1]))
                c.close()
        else:
            p = RawPeer(net, 2121)
            await p.connect()
            verb = name.split("_")[1] if name.split("_")[1] in ("PASS", "pass", "PaSs") else "PASS"
            if name == "raw_out_of_sequence":
                r = await p.cmd(f"PASS {password}")
                outcome.append(r.code)
                r = await p.cmd("USER bob")
                outcome.append(r.code)
                r = await p.cmd(f"PASS {password}")
                outcome.append(r.code)
            elif name == "raw_relogin":
                for _ in range(2):
                    r = await p.cmd("USER alice")
                    outcome.append(r.code)
                    r = await p.cmd(f"PASS {password}")
                    outcome.append(r.code)
                r = await p.cmd(f"pass {password}")
                outcome.append(r.code)
            else:
                r = await p.cmd("USER alice")
                outcome.append(r.code)
                r = await p.cmd(f"{verb} {password}")
                outcome.append(r.code)
            r = await p.cmd("QUIT")
            p.cut("fin")
        await net.settle()
        await w.stop()
        return outcome
    finally:
        w.cleanup()


def run_scenario(name, password, seed):
    async def main(net, hyg):
        return await scenario(net, hyg, name, password)
    res, info = W.run(main, seed=seed, net_kwargs=dict(latency=0.0005))
    if res is None:
        return None, None, info
    h = info["hygiene"]
    stream = []
    texts = []
    for r in h.records:
        try:
            msg = r.getMessage()
        except Exception as e:
            msg = f"<unformattable {r.msg!r} {r.args!r} {e!r}>"
        stream.append((r.name, r.levelname, msg))
        tb = ""
        if r.exc_info:
            try:
                tb = logging.Formatter().formatException(r.exc_info)
            except Exception:
                tb = ""
        texts.append(msg + " | " + repr(r.msg) + " | " + repr(r.args) + " | " + (r.exc_text or "") + " | " +
                     (repr(r.exc_info[1]) if r.exc_info else "") + " | " + tb)
    return res, (stream, texts), info


def run_case(case):
    rng = random.Random(case["seed"])
    viol = []
    mon = {"substring_search": 0, "non_interference": 0, "records_seen": 0}
    sigs = []
    sample = None
    for pw in case["passwords"]:
        tw = twin(pw, rng)
        for name in SCENARIOS:
            out1, logs1, info = run_scenario(name, pw, case["seed"])
            if out1 is None:
                return W.failed(info)
            stream1, texts1 = logs1
            mon["records_seen"] += len(stream1)
            cls = "short" if len(pw) < 3 else ("plain" if pw.isalnum() else "meta")
            sigs.append(sig_of([cls, name, [c for c in SPECIALS if c in pw][:3]]))
            tw_ = tw
            if name == "client_latin1_to_utf8_server":
                # the twin keeps the letters beyond ASCII where they are (what the decoder says about the first bad byte is the same)
                tw_ = "".join(ch if (not ch.isascii() or ch in " \t") else rng.choice([a for a in ALPHA if a != ch]) for ch in pw)
                tw_ = tw_ if tw_ != pw else None
            if tw_ is not None:
                out2, logs2, info2 = run_scenario(name, tw_, case["seed"])
                if out2 is None:
                    return W.failed(info2)
                stream2, texts2 = logs2
                mon["non_interference"] += 1
                if out1 == out2 and stream1 != stream2:
                    diff = next(((a, b) for a, b in zip(stream1, stream2) if a != b), (len(stream1), len(stream2)))
                    viol.append({"key": f"log-depends-on-password:{name}",
                                 "msg": f"scenario {name}: logs differ between passwords {pw!r} and {tw_!r} (same length): first difference {diff}",
                                 "replay_case": {"seed": case["seed"], "passwords": [pw]}})
                base_text = "\n".join(texts2)
            else:
                base_text = ""
            needle = pw.strip()     # what the line protocol really carries of a password with blanks at its ends
            if name == "client_line_break":
                needle = pw[max(1, len(pw) // 3):].strip()      # the part behind the break
            if name == "client_latin1_to_utf8_server":
                # (a byte string is shown with escapes for what is beyond ASCII: look for the longest plain run)
                runs = sorted(__import__("re").findall(r"[!-~]{4,}", pw), key=len)
                needle = runs[-1] if runs else ""
            if len(needle) >= 4 and needle not in base_text:
                mon["substring_search"] += 1
                hits = [t for t in texts1 if needle in t]
                if hits:
                    viol.append({"key": f"password-in-log:{name}",
                                 "msg": f"scenario {name}: password {pw!r} appears in log record {hits[0][:200]!r}",
                                 "replay_case": {"seed": case["seed"], "passwords": [pw]}})
            if sample is None and name == "raw_relogin":
                sample = {"password": pw, "twin": tw, "scenario": name, "outcome": out1,
                          "log_stream_head": [list(x) for x in stream1[:14]]}
    return {"violations": viol, "monitors": mon, "sigs": sigs, "sample": sample}


def gen_cases(tier, seed):
    rng = random.Random(seed * 37 + 1)
    n = 64 if tier == "quick" else 6000
    pws = ["secret", "s3cr3t pass", " leading", "a", "ab", "%s%s%s", "%(x)s", "{}{}", "back\\slash", "пароль1", "pa ss  wo rd", "***", "****",
           "PASS secret2", "x" * 64, "sésame-ouvre-toi", "naïve pass", "ÿ-Größe", "trailing ", "two blanks  ", " both ends ", "tab\tin\tside", "end-tab\t"]
    while len(pws) < n:
        pws.append(gen_password(rng))
    per = 4
    return [{"seed": seed * 1000 + i, "passwords": pws[i:i + per]} for i in range(0, len(pws), per)]
