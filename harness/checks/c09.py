"""C09 - client tree operations (upload, download, recursive list, remove) are faithful."""

import itertools
import pathlib
import posixpath
import random
import shutil
import tempfile

from .. import boot  # noqa: F401
from .. import world as W
from ..runner import sig_of
from ..spyfs import DIR, fs_populate, fs_tree, memory_populate, memory_tree
import aioftp

PROPERTY = "C09"
LEVEL = "exploration"
RULE = ("trees: every shape up to depth 2 / fan-out 2 over {file, empty file, empty dir, dir} plus random trees up to depth 4 "
        "(same names on different levels); operations upload / download / recursive list / remove with destination in {'', 'd', "
        "'d/e', '/abs/x', existing or not}, write_into on/off, client cwd in {/, /w, /w/v}, block sizes {1, 7, 8192}, MLSD "
        "server and LIST-fallback server, in-memory and real-directory local side.  Oracle: a specification function derived "
        "from the documentation gives the complete expected tree (nothing missing, nothing extra, contents equal).  distinct "
        "= distinct (tree, operation, destination, write_into, cwd) tuples; non-trivial = tree with >= 2 nodes or a destination "
        "with >= 1 component.")
RULE += ("  " + 'Also: the same relative name denoting a file in one directory and a directory in another: stat / is_file / is_dir / exists before and after change_directory, then download or remove by the relative name.')
RULE += ("  " + 'Also: after a refused or abandoned recursive listing, a refused remove, and an upload repeated from another working directory, the next operations behave as on a fresh client.')
RULE += ("  " + 'Also (round 7): download over a stale local copy of the same layout; the root named absolutely, listed (plain, recursive) and stat-ed from other working directories.')
RULE += ("  " + 'Also (round 8): one Client object, two sessions on two servers: upload and recursive listing of the second are complete.')
RULE += ("  " + 'Also (round 9): entries that carry the name of their own directory (d/d as the first file, addressed by the bare relative name); the same client uploading, removing and uploading the same destination again.')
RULE += ("  " + 'Also (round 10): remove on a LIST-only server whose storage takes 5 ms per stat; a download whose local destination is a directory (ordinary exception, client goes on); the first storage call behind remove() fails: remove() raises and does not return with the tree intact.')
RULE += ("  " + 'Also (round 11): sibling pairs differing by a temporary-file suffix (n / n.part, x.tmp / x, f / f~), local listing in ascending and descending order.')
ASSUMPTIONS = ["documented placement rule: destination/source.name/... by default, destination/... with write_into",
               "names are plain (C08 covers metacharacters)"]
REQUIRED_MONITORS = ["upload_tree", "download_tree", "recursive_list", "remove_tree"]
ANCHOR_FUNCTIONS = ['client.py:Client.upload', 'client.py:Client.download', 'client.py:Client.remove', 'client.py:Client.list.<locals>.AsyncLister.__anext__']
EXHAUSTIVE = {"quick": False, "thorough": False}


def all_small_trees():
    """every tree up to depth 2 / fan-out 2: node kinds F(ile), E(mpty file), D(ir with children), X (empty dir)"""
    leaves = ["F", "E", "X"]
    level1 = []
    for n in (0, 1, 2):
        for kinds in itertools.product(leaves, repeat=n):
            level1.append(kinds)
    trees = []
    for n in (0, 1, 2):
        for kinds in itertools.product(leaves + ["D"], repeat=n):
            subs = [level1 if k == "D" else [None] for k in kinds]
            for combo in itertools.product(*subs):
                t = {}
                for i, (k, sub) in enumerate(zip(kinds, combo)):
                    name = ["a", "b"][i]
                    if k == "F":
                        t[name] = b"data-" + name.encode() * 5
                    elif k == "E":
                        t[name] = b""
                    elif k == "X":
                        t[name] = DIR
                    else:
                        t[name] = DIR
                        for j, kk in enumerate(sub):
                            nm = name + "/" + ["a", "c"][j]
                            t[nm] = b"inner-" + nm.encode() if kk == "F" else (b"" if kk == "E" else DIR)
                trees.append(t)
    return trees


def random_tree(rng, depth=4):
    t = {}

    def fill(prefix, d):
        for i in range(rng.randint(0, 3)):
            name = rng.choice(["a", "b", "c", "src", "x.txt", "data"]) + (str(i) if rng.random() < 0.5 else "")
            if rng.random() < 0.12:
                # legal names that look like pieces of a listing line (and, without their head, like a sibling's name)
                name = rng.choice(["rev=2; ", "k=v; ", "type=dir;size=0; ", "x y ", "a;b", "perm=; "]) + name
            p = prefix + name
            if p in t:
                continue
            r = rng.random()
            if r < 0.35 and d < depth:
                t[p] = DIR
                fill(p + "/", d + 1)
            elif r < 0.45:
                t[p] = b""
            else:
                t[p] = bytes(rng.randrange(256) for _ in range(rng.choice([1, 5, 100, 9000])))
    fill("", 1)
    return t


def resolve(cwd, p):
    p = str(p)
    if not p.startswith("/"):
        p = cwd.rstrip("/") + "/" + p
    return posixpath.normpath(p)


def expect_upload(remote0, cwd, src_name, src_tree, src_is_file, destination, write_into):
    """specification: complete remote tree after upload"""
    out = dict(remote0)
    dest = pathlib.PurePosixPath(destination)
    if not write_into:
        dest = dest / src_name
    root = resolve(cwd, dest)

    def mk_parents(p):
        q = posixpath.dirname(p)
        while q not in ("/", "") and q not in out:
            out[q] = DIR
            q = posixpath.dirname(q)
    if src_is_file:
        mk_parents(root)
        out[root] = src_tree
        return out
    if root != "/":
        mk_parents(root)
        out[root] = DIR
    for rel, v in src_tree.items():
        p = root.rstrip("/") + "/" + rel
        mk_parents(p)
        out[p] = v
    return out


async def cwd_switch(net, hyg, plan):
    """the same relative name means different things in different working directories: the high-level operations follow
    the working directory at the time of the call, whatever the client looked at before"""
    viol = []
    mon = {"upload_tree": 0, "download_tree": 0, "recursive_list": 0, "remove_tree": 0, "cwd_switch": 1}
    remote0 = {"/a": DIR, "/b": DIR, "/a/x": b"file-in-a", "/b/x": DIR, "/b/x/inner.txt": b"inner", "/b/x/sub": DIR,
               "/b/y": b"only-in-b", "/keep.txt": b"keep"}
    w = W.World(net, tree=remote0)
    await w.start()
    if plan["fallback"]:
        del w.server.commands_mapping["mlsd"]
        del w.server.commands_mapping["mlst"]
    try:
        c = aioftp.Client(path_io_factory=aioftp.MemoryPathIO)
        await c.connect("127.0.0.1", 2121)
        await c.login()
        first, second = plan["order"]
        rec = {}
        for where in (first, second):
            await c.change_directory("/" + where)
            for probe in plan["probes"]:
                if probe == "stat":
                    try:
                        rec[(where, "type-x")] = (await c.stat("x")).get("type")
                    except aioftp.StatusCodeError:
                        rec[(where, "type-x")] = None
                elif probe == "kinds":
                    rec[(where, "kinds-x")] = (await c.is_file("x"), await c.is_dir("x"))
                elif probe == "exists":
                    rec[(where, "exists-y")] = await c.exists("y")
        want = {("a", "type-x"): "file", ("b", "type-x"): "dir", ("a", "kinds-x"): (True, False), ("b", "kinds-x"): (False, True),
                ("a", "exists-y"): False, ("b", "exists-y"): True}
        for k, v in rec.items():
            if want[k] != v:
                viol.append({"key": f"stale-answer-after-cwd-change:{k[1]}",
                             "msg": f"plan {plan}: in /{k[0]} the client reports {k[1]} = {v!r}, the tree says {want[k]!r}"})
        # act on the relative name in the second directory
        act = plan["act"]
        tree_want = dict(remote0)
        try:
            if act == "download":
                await c.download("x", "/local", write_into=True)
                got = {}
                for pth in await c.path_io.list(pathlib.PurePosixPath("/local")) if await c.path_io.is_dir(pathlib.PurePosixPath("/local")) else []:
                    got[pth.name] = "dir" if await c.path_io.is_dir(pth) else "file"
                is_file_local = await c.path_io.is_file(pathlib.PurePosixPath("/local"))
                mon["download_tree"] += 1
                if second == "a" and not is_file_local:
                    viol.append({"key": "download-wrong:cwd-switch", "msg": f"plan {plan}: download('x') in /a should give a file, local has {got}"})
                if second == "b" and got != {"inner.txt": "file", "sub": "dir"}:
                    viol.append({"key": "download-wrong:cwd-switch", "msg": f"plan {plan}: download('x') in /b should give the directory, local has {got}"})
            elif act == "remove":
                await c.remove("x")
                mon["remove_tree"] += 1
                for k in list(tree_want):
                    if k == f"/{second}/x" or k.startswith(f"/{second}/x/"):
                        tree_want.pop(k)
        except Exception as e:
            viol.append({"key": f"{act}-raises:cwd-switch", "msg": f"plan {plan}: {e!r}"})
        # (asked last: these questions must not come between the probes above and the action)
        # the root, named absolutely, is the root from every working directory
        try:
            got_root = sorted(str(p_) for p_, _i in await c.list("/"))
            got_all = sorted(str(p_) for p_, _i in await c.list("/", recursive=True))
            top = (await c.stat("/keep.txt")).get("type")
            mon["recursive_list"] += 1
            if got_root != ["/a", "/b", "/keep.txt"] or got_all != sorted(tree_want) or top != "file":
                viol.append({"key": "root-listing-wrong-from-another-cwd",
                             "msg": f"plan {plan}: in /{second}: list('/') = {got_root}, recursive {got_all[:6]}..., stat('/keep.txt') type {top}"})
        except Exception as e:
            viol.append({"key": "root-listing-raises-from-another-cwd", "msg": f"plan {plan}: in /{second}: {e!r}"[:300]})
        if w.tree() != tree_want:
            viol.append({"key": f"{act}-wrong:cwd-switch", "msg": f"plan {plan}: tree {sorted(w.tree())} expected {sorted(tree_want)}"})
        await c.quit()
        return viol, mon
    finally:
        await w.stop()
        w.cleanup()


async def same_name(net, hyg, plan):
    """directories that contain an entry with their own name (proj/proj, lib/lib - file or directory, listed first), addressed
    by their bare relative name; and a destination that is uploaded to, removed (named by a str) and uploaded to again"""
    viol = []
    mon = {"upload_tree": 0, "download_tree": 0, "recursive_list": 0, "remove_tree": 0, "same_name": 1}
    kind = plan["inner"]          # "file" | "dir"
    tree0 = {"/proj": DIR, "/proj/proj": b"x" if kind == "file" else DIR, "/proj/z.txt": b"z", "/proj/lib": DIR,
             "/proj/lib/lib": b"y" if kind == "file" else DIR, "/proj/lib/w": b"w", "/keep.txt": b"k"}
    if kind == "dir":
        tree0["/proj/proj/deep.txt"] = b"d"
    w = W.World(net, tree=tree0)
    await w.start()
    if plan["fallback"]:
        del w.server.commands_mapping["mlsd"]
        del w.server.commands_mapping["mlst"]
    try:
        c = aioftp.Client(path_io_factory=aioftp.MemoryPathIO)
        await c.connect("127.0.0.1", 2121)
        await c.login()

        def under(prefix, recursive):
            out = []
            for k in tree0:
                if k.startswith(prefix + "/"):
                    rel = k[len(prefix) + 1:]
                    if recursive or "/" not in rel:
                        out.append(rel)
            return sorted(out)
        try:
            for spelled, absolute, cd in (("proj", "/proj", None), ("lib", "/proj/lib", "/proj"), ("/proj", "/proj", None)):
                if cd:
                    await c.change_directory(cd)
                for rec in (False, True):
                    got = sorted(str(p_.relative_to(spelled)) for p_, _i in await c.list(spelled, recursive=rec))
                    mon["recursive_list"] += 1
                    if got != under(absolute, rec):
                        viol.append({"key": f"listing-differs:entry-named-like-its-directory:{'fallback' if plan['fallback'] else 'mlsd'}",
                                     "msg": f"plan {plan}: list({spelled!r}, recursive={rec}) from {cd or '/'} gives {got}, the directory holds {under(absolute, rec)}"})
                if cd:
                    await c.change_directory("/")
            await c.download("proj", "/local", write_into=True)
            mon["download_tree"] += 1
            have = sorted(k[len("/local/"):] for k in memory_tree(c.path_io.fs) if k.startswith("/local/"))
            if have != under("/proj", True):
                viol.append({"key": "download-differs:entry-named-like-its-directory", "msg": f"plan {plan}: downloaded {have}, the directory holds {under('/proj', True)}"})
            # upload, remove (named by a str), upload again: the same client, the same destination
            memory_populate(c.path_io.fs, {"/src": DIR, "/src/only": DIR, "/src/f.txt": b"f"})
            for rnd in range(2):
                await c.upload(pathlib.Path("/src"), "dest", write_into=True)
                mon["upload_tree"] += 1
                t = w.tree()
                if t.get("/dest") != DIR or t.get("/dest/only") != DIR or t.get("/dest/f.txt") != b"f":
                    viol.append({"key": f"upload-wrong-after-remove:round-{rnd}", "msg": f"plan {plan}: /dest holds {sorted(k for k in t if k.startswith('/dest'))}"})
                await c.remove("dest")
                mon["remove_tree"] += 1
                if any(k.startswith("/dest") for k in w.tree()):
                    viol.append({"key": "remove-wrong:named-by-str", "msg": f"plan {plan}: after remove('dest'): {sorted(k for k in w.tree() if k.startswith('/dest'))}"})
            await c.remove("proj")
            mon["remove_tree"] += 1
            if sorted(w.tree()) != ["/keep.txt"]:
                viol.append({"key": "remove-wrong:entry-named-like-its-directory", "msg": f"plan {plan}: left {sorted(w.tree())}"})
        except Exception as e:
            viol.append({"key": "operation-raises:entry-named-like-its-directory", "msg": f"plan {plan}: {e!r}"[:300]})
        try:
            await c.quit()
        except Exception:
            pass
        return viol, mon
    finally:
        await w.stop()
        w.cleanup()


async def client_reuse(net, hyg, plan):
    """one Client object, two sessions (quit / close, then connect again - to another server, or as another account with another
    home): the second session's upload, listing and removal are those of a fresh client"""
    viol = []
    mon = {"upload_tree": 0, "download_tree": 0, "recursive_list": 0, "remove_tree": 0, "client_reuse": 1}
    src = {"/src": DIR, "/src/a": DIR, "/src/a/x.txt": b"x", "/src/a/deep": DIR, "/src/a/deep/y.bin": b"yy", "/src/empty": DIR, "/src/top.txt": b"t"}
    worlds = []
    try:
        c = aioftp.Client(path_io_factory=aioftp.MemoryPathIO)
        memory_populate(c.path_io.fs, {"/local" + k: v for k, v in src.items()})
        for life in range(2):
            w = W.World(net, tree={"/keep.txt": b"k"}, port=2121 + life)
            worlds.append(w)
            await w.start()
            if plan["fallback"] == life + 1:
                del w.server.commands_mapping["mlsd"]
                del w.server.commands_mapping["mlst"]
            await c.connect("127.0.0.1", 2121 + life)
            await c.login()
            if plan.get("cwd"):
                await c.make_directory(plan["cwd"])
                await c.change_directory(plan["cwd"])
            try:
                await c.upload(pathlib.Path("/local/src"), plan["destination"], write_into=plan["write_into"])
                mon["upload_tree"] += 1
                want = expect_upload({"/keep.txt": b"k", **({plan["cwd"]: DIR} if plan.get("cwd") else {})}, plan.get("cwd") or "/", "src",
                                     {k[len("/src/"):]: v for k, v in src.items() if k != "/src"}, False, plan["destination"], plan["write_into"])
                got = w.tree()
                if got != want:
                    extra = sorted(set(got) - set(want))
                    missing = sorted(set(want) - set(got))
                    viol.append({"key": f"upload-wrong-in-session-{life + 1}-of-one-client",
                                 "msg": f"plan {plan}: session {life + 1} of the same Client object: extra {extra[:4]} missing {missing[:4]}"})
                root = resolve(plan.get("cwd") or "/", plan["destination"] if plan["write_into"] else posixpath.join(plan["destination"], "src"))
                listed = sorted(str(p_) for p_, _i in await c.list(root, recursive=True))
                mon["recursive_list"] += 1
                want_l = sorted(k for k in want if k.startswith(root.rstrip("/") + "/"))
                if listed != want_l:
                    viol.append({"key": f"listing-wrong-in-session-{life + 1}-of-one-client",
                                 "msg": f"plan {plan}: session {life + 1}: recursive list of {root} gives {listed[:5]}, the tree holds {want_l[:5]}"})
            except Exception as e:
                viol.append({"key": f"operation-raises-in-session-{life + 1}-of-one-client", "msg": f"plan {plan}: {e!r}"[:300]})
            try:
                await c.quit()
            except Exception:
                c.close()
        return viol, mon
    finally:
        for w in worlds:
            await w.stop()
            w.cleanup()


async def after_error(net, hyg, plan):
    """a high-level operation that fails (or is abandoned) half-way leaves nothing in the client that changes what the next
    operation does"""
    viol = []
    mon = {"upload_tree": 0, "download_tree": 0, "recursive_list": 0, "remove_tree": 0, "after_error": 1}
    remote0 = {"/tree": DIR, "/tree/a": DIR, "/tree/a/1.txt": b"1", "/tree/b": DIR, "/tree/b/keep.txt": b"keep", "/tree/b/deep": DIR,
               "/tree/b/deep/k2": b"k2", "/tree/c": DIR, "/tree/c/3.txt": b"3", "/other": DIR, "/other/o.txt": b"o", "/other/sub": DIR,
               "/other/sub/p.txt": b"p", "/vault": DIR, "/vault/open1": b"x", "/vault/locked": DIR, "/vault/locked/l.txt": b"l",
               "/vault/open2": b"y", "/vault/z-open3": b"z", "/scratch": DIR, "/scratch/s1": b"s", "/scratch/d": DIR, "/scratch/d/s2": b"t",
               "/first": DIR, "/second": DIR}
    perms = [aioftp.Permission("/"), aioftp.Permission("/tree/b", readable=False), aioftp.Permission("/vault/locked", writable=False),
             aioftp.Permission("/vault/open2", writable=False)]
    w = W.World(net, tree=remote0, users=[aioftp.User(base_path="/", permissions=perms)])
    await w.start()
    if plan["fallback"]:
        del w.server.commands_mapping["mlsd"]
        del w.server.commands_mapping["mlst"]
    try:
        c = aioftp.Client(path_io_factory=aioftp.MemoryPathIO)
        await c.connect("127.0.0.1", 2121)
        await c.login()
        want = dict(remote0)
        what = plan["what"]
        first_error = None
        try:
            if what == "list-refused":
                await c.list("/tree", recursive=True)
            elif what == "list-abandoned":
                async for pth, info in c.list("/tree", recursive=True):
                    if pth.name == "a":
                        break
                # the data connection of the abandoned listing is the client's to clean up: a fresh client object is not needed
            elif what == "remove-refused":
                await c.remove("/vault")
            elif what == "download-onto-directory":
                # the local side of a download cannot be opened (a directory sits where the file should go): an ordinary
                # exception, and the client goes on as if nothing had been asked
                await c.path_io.mkdir(pathlib.PurePosixPath("/dl/o.txt"), parents=True)
                await c.download("/other/o.txt", "/dl/o.txt", write_into=True)
            elif what == "remove-with-fault":
                # the storage fails once, at the first thing remove() asks the server: that is an error, not "nothing there"
                state_ = {"n": 0}

                def fail_once(op, path, n, sess):
                    state_["n"] += 1
                    return OSError(5, "injected EIO") if state_["n"] == 1 else None
                w.ctl.fail = fail_once
                try:
                    await c.remove("/scratch")
                finally:
                    w.ctl.fail = None
                if "/scratch/s1" in w.tree():
                    viol.append({"key": "remove-returned-with-the-tree-intact", "msg": f"plan {plan}: the first storage call behind remove('/scratch') "
                                                                                       f"failed (451), remove() returned normally, nothing was removed"})
            elif what == "remove-slow-storage":
                # every stat of the storage takes 5 ms (a network file system): listings are still being written while the
                # client already reads them
                w.ctl.delay = lambda op, path, n: 0.005 if op == "stat" else 0
                try:
                    await c.remove("/first")
                finally:
                    w.ctl.delay = None
                want.pop("/first")
            elif what == "upload-twice":
                local = pathlib.PurePosixPath("/src")
                await c.path_io.mkdir(local / "in" / "deeper", parents=True)
                async with c.path_io.open(local / "in" / "deeper" / "f.txt", mode="wb") as lf:
                    await lf.write(b"payload")
                await c.change_directory("/first")
                await c.upload(local, "incoming/v1", write_into=True)
                for k_, v_ in (("/first/incoming", DIR), ("/first/incoming/v1", DIR), ("/first/incoming/v1/in", DIR),
                               ("/first/incoming/v1/in/deeper", DIR), ("/first/incoming/v1/in/deeper/f.txt", b"payload")):
                    want[k_] = v_
        except (aioftp.StatusCodeError, ConnectionError, aioftp.PathIOError) as e:
            first_error = e
        if what == "remove-slow-storage" and first_error is not None:
            viol.append({"key": "remove-fails-on-slow-storage", "msg": f"plan {plan}: remove('/first') -> {first_error!r}"[:300]})
            want = dict(w.tree())
        if what == "download-onto-directory" and first_error is None:
            viol.append({"key": "download-onto-directory-succeeded", "msg": f"plan {plan}"})
        if what == "remove-refused":
            if first_error is None:
                viol.append({"key": "remove-of-protected-tree-succeeded", "msg": f"plan {plan}"})
            # whatever was deleted before the refusal is gone; judge only what follows
            want = dict(w.tree())
        if what == "list-abandoned":
            # an abandoned listing leaves its data connection half-read: the documented way on is a new client session
            c.close()
            c = aioftp.Client(path_io_factory=aioftp.MemoryPathIO)
            await c.connect("127.0.0.1", 2121)
            await c.login()
        # the next operations
        try:
            if what == "upload-twice":
                await c.change_directory("/second")
                await c.upload(pathlib.PurePosixPath("/src"), "incoming/v1", write_into=True)
                mon["upload_tree"] += 1
                for k_, v_ in (("/second/incoming", DIR), ("/second/incoming/v1", DIR), ("/second/incoming/v1/in", DIR),
                               ("/second/incoming/v1/in/deeper", DIR), ("/second/incoming/v1/in/deeper/f.txt", b"payload")):
                    want[k_] = v_
            else:
                listed = sorted(str(pth) for pth, info in await c.list("/other", recursive=True))
                mon["recursive_list"] += 1
                if listed != ["/other/o.txt", "/other/sub", "/other/sub/p.txt"]:
                    viol.append({"key": f"listing-polluted-after-{what}", "msg": f"plan {plan}: list('/other') -> {listed}"})
                if not await c.exists("/scratch/s1") or await c.exists("/scratch/nope"):
                    viol.append({"key": f"exists-wrong-after-{what}", "msg": f"plan {plan}"})
                await c.remove("/scratch")
                mon["remove_tree"] += 1
                for k_ in list(want):
                    if k_ == "/scratch" or k_.startswith("/scratch/"):
                        want.pop(k_)
                st = await c.stat("/other/o.txt")
                if st.get("type") != "file":
                    viol.append({"key": f"stat-wrong-after-{what}", "msg": f"plan {plan}: {st}"})
        except Exception as e:
            viol.append({"key": f"next-operation-raises-after-{what}", "msg": f"plan {plan}: {e!r}"[:300]})
        if w.tree() != want:
            extra = sorted(set(w.tree()) - set(want))
            missing = sorted(set(want) - set(w.tree()))
            viol.append({"key": f"tree-wrong-after-{what}", "msg": f"plan {plan}: extra {extra[:4]} missing {missing[:4]}"})
        try:
            await c.quit()
        except Exception:
            pass
        return viol, mon
    finally:
        await w.stop()
        w.cleanup()


async def run_plan(net, hyg, plan):
    if plan.get("op") == "cwd_switch":
        return await cwd_switch(net, hyg, plan)
    if plan.get("op") == "after_error":
        return await after_error(net, hyg, plan)
    if plan.get("op") == "client_reuse":
        return await client_reuse(net, hyg, plan)
    if plan.get("op") == "same_name":
        return await same_name(net, hyg, plan)
    rng = random.Random(plan["seed"])
    viol = []
    mon = {"upload_tree": 0, "download_tree": 0, "recursive_list": 0, "remove_tree": 0}
    if plan["src_is_file"]:
        tree = bytes.fromhex(plan["file_hex"])
    else:
        tree = {k: (DIR if v == DIR else bytes.fromhex(v)) for k, v in plan["tree"].items()}
    cwd = plan["cwd"]
    remote0 = {"/w": DIR, "/w/v": DIR, "/keep.txt": b"keep", "/w/keep2": b"k2"}
    if plan.get("dest_exists") and plan["destination"] and not (plan["src_is_file"] and plan["write_into"]):
        r = resolve(cwd, plan["destination"])
        q = r
        while q not in ("/", ""):
            remote0.setdefault(q, DIR)
            q = posixpath.dirname(q)
    if plan.get("merge") and not plan["src_is_file"]:
        # part of the tree is already there (second upload / merge into a prepared layout)
        dest0 = pathlib.PurePosixPath(plan["destination"])
        root0 = resolve(cwd, dest0 if plan["write_into"] else dest0 / plan["src_name"])
        pre = random.Random(plan["seed"] + 1)
        for rel, v in sorted(tree.items()):
            if pre.random() < 0.5:
                pth = root0.rstrip("/") + "/" + rel
                remote0[pth] = DIR if v == DIR else b"stale"
                q = posixpath.dirname(pth)
                while q not in ("/", ""):
                    remote0.setdefault(q, DIR)
                    q = posixpath.dirname(q)
        # a directory cannot be replaced by a file or vice versa: keep kinds consistent with the source
        for pth in list(remote0):
            relp = pth[len(root0.rstrip("/")) + 1:] if pth.startswith(root0.rstrip("/") + "/") else None
            if relp in tree and (tree[relp] == DIR) != (remote0[pth] == DIR):
                remote0[pth] = DIR if tree[relp] == DIR else b"stale"
    w = W.World(net, tree=remote0, block_size=plan.get("server_block", 8192))
    await w.start()
    if plan["fallback"]:
        del w.server.commands_mapping["mlsd"]
        del w.server.commands_mapping["mlst"]
    tmp = None
    try:
        local_fs = plan.get("local", "memory") == "fs"
        if local_fs:
            tmp = tempfile.mkdtemp(prefix="aioftp-verif-c09-")
            c = aioftp.Client()
            lroot = pathlib.Path(tmp)
        else:
            c = aioftp.Client(path_io_factory=aioftp.MemoryPathIO)
            lroot = pathlib.Path("/local")
        await c.connect("127.0.0.1", 2121)
        await c.login()
        await c.change_directory(cwd)
        src_name = plan["src_name"]
        src_is_file = plan["src_is_file"]
        # build the local source
        if src_is_file:
            spec = {"/" + src_name: tree}
        else:
            spec = {"/" + src_name: DIR}
            spec.update({"/" + src_name + "/" + k: v for k, v in tree.items()})
        if local_fs:
            fs_populate(lroot, spec)
        else:
            memory_populate(c.path_io.fs, {"/local" + k: v for k, v in spec.items()}, reverse=bool(plan.get("local_reverse")))
        op = plan["op"]
        where = (f"{op} tree={sorted(plan['tree'])} file={src_is_file} destination={plan['destination']!r} write_into={plan['write_into']} "
                 f"cwd={cwd} fallback={plan['fallback']}")

        def diff(got, want):
            extra = sorted(set(got) - set(want))
            missing = sorted(set(want) - set(got))
            wrong = sorted(k for k in got if k in want and got[k] != want[k])
            return f"extra {extra[:4]} missing {missing[:4]} wrong-content {wrong[:4]}"

        if op in ("upload", "list", "remove", "download"):
            want = expect_upload(remote0, cwd, src_name, tree, src_is_file, plan["destination"], plan["write_into"])
            try:
                await c.upload(lroot / src_name, plan["destination"], write_into=plan["write_into"], block_size=plan.get("block", 8192))
            except Exception as e:
                viol.append({"key": f"upload-raises:{kind_of(plan)}", "msg": f"{where}: {e!r}"[:400]})
                return viol, mon
            got = w.tree()
            mon["upload_tree"] += 1
            if got != want:
                viol.append({"key": f"upload-misplaced:{kind_of(plan)}", "msg": f"{where}: {diff(got, want)}"})
                return viol, mon
            dest = pathlib.PurePosixPath(plan["destination"])
            root = resolve(cwd, dest if plan["write_into"] else dest / src_name)
        if op == "list" and not src_is_file and root != "/":
            try:
                listed = await c.list(root, recursive=True)
            except Exception as e:
                viol.append({"key": "recursive-list-raises", "msg": f"{where}: {e!r}"[:400]})
                return viol, mon
            mon["recursive_list"] += 1
            paths = sorted(str(p) for p, info in listed)
            wantp = sorted(k for k in want if k.startswith(root.rstrip("/") + "/"))
            if paths != wantp:
                viol.append({"key": f"recursive-list-differs:{'fallback' if plan['fallback'] else 'mlsd'}",
                             "msg": f"{where}: listed {paths[:8]} expected {wantp[:8]}"})
            else:
                for p, info in listed:
                    typ = "dir" if want[str(p)] == DIR else "file"
                    if info.get("type") != typ:
                        viol.append({"key": "recursive-list-type", "msg": f"{where}: {p} listed as {info.get('type')}"})
                        break
            # relative spelling from the client's cwd
            rel = posixpath.relpath(root, cwd)
            if not rel.startswith(".."):
                try:
                    listed2 = await c.list(rel, recursive=True)
                except Exception as e:
                    viol.append({"key": "recursive-list-raises", "msg": f"{where}: list({rel!r}): {e!r}"[:400]})
                    return viol, mon
                mon["recursive_list"] += 1
                p2 = sorted(resolve(cwd, p) for p, info in listed2)
                if p2 != wantp:
                    viol.append({"key": f"recursive-list-differs:relative", "msg": f"{where}: list({rel!r}) gave {p2[:8]} expected {wantp[:8]}"})
        if op == "remove" and root != "/":
            mon["remove_tree"] += 1
            rc = plan.get("remove_cwd", "outside")
            if rc != "outside" and want.get(root) == DIR:
                inner = [k for k in sorted(want) if k.startswith(root.rstrip("/") + "/") and want[k] == DIR]
                await c.change_directory(inner[0] if (rc == "child" and inner) else root)
            try:
                await c.remove(root)
            except Exception as e:
                viol.append({"key": "remove-raises", "msg": f"{where}: remove({root}): {e!r}"[:400]})
                return viol, mon
            got = w.tree()
            want2 = {k: v for k, v in want.items() if not (k == root or k.startswith(root.rstrip("/") + "/"))}
            if got != want2:
                viol.append({"key": f"remove-wrong:{'fallback' if plan['fallback'] else 'mlsd'}", "msg": f"{where}: after remove({root}): {diff(got, want2)}"})
        if op == "download" and root != "/":
            ldest = plan.get("ldest", "")
            lwi = plan.get("lwrite_into", False)
            lbase = lroot / "down"
            if plan.get("lstale"):
                # an earlier copy is already at the local destination: same layout, every file with other (longer) content
                rname0 = posixpath.basename(root)
                base0 = "/down" + ("/" + ldest if ldest else "") + ("" if lwi else "/" + rname0)
                stale = {}
                if want[root] != DIR:
                    stale[base0] = b"stale copy, longer than what the server holds now " * 3
                else:
                    stale[base0] = DIR
                    for k_, v_ in want.items():
                        if k_.startswith(root.rstrip("/") + "/"):
                            stale[base0 + k_[len(root.rstrip("/")):]] = DIR if v_ == DIR else b"stale copy, longer than what the server holds now " * 3
                q0 = posixpath.dirname(base0)
                while q0 not in ("/", ""):
                    stale.setdefault(q0, DIR)
                    q0 = posixpath.dirname(q0)
                stale = dict(sorted(stale.items()))
                if local_fs:
                    fs_populate(lroot, stale)
                else:
                    memory_populate(c.path_io.fs, {"/local" + k_: v_ for k_, v_ in stale.items()})
                mon["download_over_stale_copy"] = mon.get("download_over_stale_copy", 0) + 1
            try:
                await c.download(root, lbase / ldest if ldest else lbase, write_into=lwi, block_size=plan.get("block", 8192))
            except Exception as e:
                viol.append({"key": f"download-raises:{kind_of(plan)}", "msg": f"{where}: {e!r}"[:400]})
                return viol, mon
            mon["download_tree"] += 1
            if local_fs:
                full = fs_tree(lroot)
            else:
                full = {k[len("/local"):]: v for k, v in memory_tree(c.path_io.fs).items() if k.startswith("/local/")}
            lt = {k: v for k, v in full.items() if k == "/down" or k.startswith("/down/")}
            rname = posixpath.basename(root)
            lroot_rel = "/down" + ("/" + ldest if ldest else "") + ("" if lwi else "/" + rname)
            wantl = {}
            if want[root] != DIR:
                wantl[lroot_rel] = want[root]
            else:
                wantl[lroot_rel] = DIR
                for k, v in want.items():
                    if k.startswith(root.rstrip("/") + "/"):
                        wantl[lroot_rel + k[len(root.rstrip("/")):]] = v
            q = posixpath.dirname(lroot_rel)
            while q not in ("/", ""):
                wantl[q] = DIR
                q = posixpath.dirname(q)
            if lt != wantl:
                viol.append({"key": f"download-misplaced:{'into' if lwi else 'plain'}", "msg": f"{where} ldest={ldest!r} lwrite_into={lwi}: {diff(lt, wantl)}"})
        await c.quit()
        return viol, mon
    finally:
        await w.stop()
        w.cleanup()
        if tmp:
            shutil.rmtree(tmp, ignore_errors=True)


def kind_of(plan):
    ncomp = len([x for x in plan["destination"].split("/") if x])
    return f"{'file' if plan['src_is_file'] else 'dir'}:{'write_into' if plan['write_into'] else 'plain'}:dest{min(ncomp, 2)}"


def run_case(case):
    out = {"violations": [], "monitors": {}, "sigs": []}
    for plan in case["plans"]:
        async def main(net, hyg, plan=plan):
            return await run_plan(net, hyg, plan)
        res, info = W.run(main, seed=plan["seed"], net_kwargs=dict(latency=0.0003), max_iterations=400_000)
        if res is None:
            return W.failed(info)
        viol, mon = res
        for k, v in mon.items():
            out["monitors"][k] = out["monitors"].get(k, 0) + v
        if len(plan["tree"]) >= 2 or plan["destination"]:
            out["sigs"].append(sig_of([sorted(plan["tree"]), plan["op"], plan["destination"], plan["write_into"], plan["cwd"]]))
        for v in viol:
            v["replay_case"] = {"plans": [plan]}
            out["violations"].append(v)
        out.setdefault("sample", {k: plan.get(k) for k in ("op", "destination", "write_into", "cwd", "fallback", "src_is_file")} | {"tree": sorted(plan["tree"])})
    return out


def gen_cases(tier, seed):
    rng = random.Random(seed * 613 + 9)
    small = all_small_trees()
    # siblings whose names differ by a suffix a server or client might use for temporary files, uploaded in either order
    for pair in (("data.bin", "data.bin.part"), ("n", "n.part"), ("x.tmp", "x"), ("f", "f~"), ("r.bin.part", "r.bin"), ("q", ".q.swp")):
        small.append({pair[0]: b"first-" + pair[0].encode(), pair[1]: b"second-" + pair[1].encode()})
        small.append({"d": DIR, "d/" + pair[1]: b"inner-" + pair[1].encode(), "d/" + pair[0]: b"inner-" + pair[0].encode()})
    plans = []
    dests = ["", "d", "d/e", "/abs/x", "w2", "/w/v/deep/er"]
    n = 260 if tier == "quick" else 25000
    i = 0
    while len(plans) < n:
        i += 1
        if i % 3 == 0:
            tree = random_tree(rng)
        else:
            tree = small[(i * 7 + seed) % len(small)]
        src_is_file = rng.random() < 0.15
        tr = {k: (DIR if v == DIR else v.hex()) for k, v in tree.items()} if not src_is_file else None
        wi = rng.random() < 0.5
        dest = rng.choice(dests)
        if wi and dest == "" and src_is_file:
            dest = "renamed.bin"
        if wi and dest == "":
            dest = rng.choice(["d", "d/e", "/abs/x"]) if rng.random() < 0.7 else ""
        plan = {"seed": seed * 7 + i, "tree": tr if tr is not None else None, "src_is_file": src_is_file,
                "src_name": rng.choice(["src", "a", "data.bin"]), "destination": dest, "write_into": wi,
                "cwd": rng.choice(["/", "/w", "/w/v"]), "fallback": rng.random() < 0.3, "dest_exists": rng.random() < 0.3,
                "op": rng.choice(["upload", "upload", "list", "remove", "download", "download"]),
                "block": rng.choice([1, 7, 8192]), "server_block": rng.choice([7, 8192]),
                "ldest": rng.choice(["", "ld", "ld/deeper"]), "lwrite_into": rng.random() < 0.5,
                "merge": rng.random() < 0.3, "remove_cwd": rng.choice(["outside", "outside", "root", "child"]), "lstale": rng.random() < 0.35,
                "local": "fs" if (tier == "thorough" and i % 5 == 0) or (tier == "quick" and i % 25 == 0) else "memory"}
        if src_is_file:
            plan["tree"] = None
        plans.append(plan)
    # the suffix-sibling trees, each uploaded (both merge modes) and downloaded once for certain
    for t_i, tree in enumerate(small[-12:]):
        tr = {k: (DIR if v == DIR else v.hex()) for k, v in tree.items()}
        for op in ("upload", "download"):
            for merge in (False, True):
                plans.append({"seed": seed * 7 + 100000 + t_i, "tree": tr, "src_is_file": False, "src_name": "src", "destination": "d" if t_i % 2 else "",
                              "write_into": bool(t_i % 2), "cwd": "/w", "fallback": bool(t_i % 3 == 0), "dest_exists": merge, "op": op,
                              "block": 8192, "server_block": 8192, "ldest": "ld", "lwrite_into": False, "merge": merge,
                              "remove_cwd": "outside", "lstale": False, "local": "memory", "local_reverse": bool(t_i % 4 < 2) != merge})
    # file payload for file sources is carried separately (JSON): use a deterministic one
    for p in plans:
        if p["src_is_file"]:
            p["tree"] = {}
            p["file_hex"] = bytes(rng.randrange(256) for _ in range(rng.choice([0, 1, 300, 9000]))).hex()
    for order in (["a", "b"], ["b", "a"]):
        for probes in (["stat"], ["kinds"], ["exists"], ["stat", "kinds", "exists"], []):
            for act in ("download", "remove"):
                for fb in (False, True):
                    plans.append({"seed": seed, "op": "cwd_switch", "order": order, "probes": probes, "act": act, "fallback": fb,
                                  "tree": {}, "destination": "", "write_into": False, "cwd": "/" + order[1], "src_is_file": False})
    for inner in ("file", "dir"):
        for fb in (False, True):
            plans.append({"seed": seed, "op": "same_name", "inner": inner, "fallback": fb, "tree": {}, "destination": "", "write_into": False,
                          "src_is_file": False, "src_name": "src"})
    for dest, wi in (("up", False), ("up", True), ("/abs/x", False), ("d/e", True)):
        for fb in (0, 1, 2):
            for cwd in (None, "/w"):
                plans.append({"seed": seed, "op": "client_reuse", "destination": dest, "write_into": wi, "fallback": fb, "cwd": cwd, "tree": {},
                              "src_is_file": False, "src_name": "src"})
    for what in ("list-refused", "list-abandoned", "remove-refused", "upload-twice", "download-onto-directory", "remove-with-fault", "remove-slow-storage"):
        for fb in (False, True):
            plans.append({"seed": seed, "op": "after_error", "what": what, "fallback": fb, "tree": {}, "destination": "", "write_into": False,
                          "cwd": "/", "src_is_file": False})
    per = 10
    return [{"plans": plans[i:i + per]} for i in range(0, len(plans), per)]
