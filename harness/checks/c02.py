"""C02 - every client-supplied path stays inside the user's base directory."""

import asyncio
import itertools
import pathlib
import posixpath
import random

from .. import boot  # noqa: F401
from .. import world as W
from ..corpus import Session
from ..ftpmodel import norm
from ..runner import sig_of
from ..spyfs import DIR
import aioftp

PROPERTY = "C02"
LEVEL = "exploration"
RULE = ("layer A (function level, bounded-exhaustive): Server.get_paths for every path made of <= 4 (quick) / 5-6 "
        "(thorough) segments of {a, .., ., '', a\\\\.., C:, ..\\\\x, .hidden, a:b} with leading '', '/', '//', from cwd in "
        "{/, /a, /a/b}, base in {/, /srv/ftp, rel/dir, PureWindowsPath(C:\\\\ftp)}: real path lexically inside base with "
        "no '..' component, virtual absolute + normalised and equal to an independent stack normaliser, real == base/virtual."
        "  layer B (wire level): random CWD/CDUP histories and every path-taking verb with hostile arguments, 3 users with "
        "different base/home, re-login in mid-session: every path handed to the recording back end is inside the *current* "
        "user's base and PWD equals the model cwd.  distinct = distinct (path, cwd, base) triples / distinct wire "
        "transcripts; non-trivial = the path contains '..' or a metacharacter segment.")
RULE += ("  " + 'Also: every back-end path of a command is the location it addressed (itself, its parent, below it; for RNTO the pending source too), also when the cwd changes between the mark and the data connection; every path handed to User.get_permissions is the normalised absolute form of that location.')
ASSUMPTIONS = ["lexical confinement (symlinks are outside the statement)",
               "Windows flavour only through pathlib.PureWindowsPath at function level"]
REQUIRED_MONITORS = ["get_paths_contract", "backend_path_inside_base", "pwd_vs_model"]
ANCHOR_FUNCTIONS = ['server.py:Server.get_paths']
EXHAUSTIVE = {"quick": True, "thorough": True}

SEGS = ["a", "..", ".", "", "a\\..", "C:", "..\\x", ".hidden", "a:b"]
LEADS = ["", "/", "//"]
CWDS = ["/", "/a", "/a/b"]
BASES = [("posix", "/"), ("posix", "/srv/ftp"), ("posix", "rel/dir"), ("windows", "C:\\ftp")]


def check_one(conn, base, cwd, path):
    """returns None or (key, msg)"""
    real, virt = aioftp.Server.get_paths(conn, path)
    vs = str(virt)
    if not isinstance(virt, pathlib.PurePosixPath) or not vs.startswith("/") or vs.startswith("//"):
        return ("virtual-not-absolute", f"virtual {virt!r}")
    vparts = virt.parts[1:]
    if any(p in ("", ".", "..") for p in vparts):
        return ("virtual-not-normalised", f"virtual {virt!r}")
    try:
        rel = real.relative_to(base)
    except ValueError:
        return ("real-outside-base", f"real {real!r} not under {base!r}")
    if ".." in rel.parts:
        flavour = "windows" if isinstance(base, pathlib.PureWindowsPath) else "posix"
        return (f"real-has-dotdot:{flavour}", f"real {real!r} has '..' below base {base!r}")
    if (base / "/".join(vparts) if vparts else base) != real:
        return ("virtual-does-not-name-real", f"virtual {virt!r} real {real!r} base {base!r}")
    want = norm(cwd, path)
    if vs != want and not (real == base and vs == "/"):
        return ("virtual-differs-from-normaliser", f"virtual {virt!r} expected {want!r}")
    return None


def run_function_level(case):
    viol = []
    n = 0
    nontrivial = set()
    loop = asyncio.new_event_loop()
    asyncio.set_event_loop(loop)
    try:
        flavour, b = case["base"]
        base = pathlib.PureWindowsPath(b) if flavour == "windows" else pathlib.PurePosixPath(b)
        user = aioftp.User()
        user.base_path = base
        seen_keys = set()
        for cwd in case["cwds"]:
            conn = aioftp.Connection(current_directory=pathlib.PurePosixPath(cwd), user=user)
            for first in case["firsts"]:
                for nseg in range(0, case["maxseg"]):
                    for rest in itertools.product(SEGS, repeat=nseg):
                        for lead in LEADS:
                            path = lead + "/".join((first,) + rest)
                            n += 1
                            r = check_one(conn, base, cwd, path)
                            if r is not None and r[0] not in seen_keys:
                                seen_keys.add(r[0])
                                viol.append({"key": r[0], "msg": f"get_paths(cwd={cwd!r}, base={base!r}, path={path!r}): {r[1]}",
                                             "replay_case": {"kind": "one", "base": case["base"], "cwd": cwd, "path": path}})
                            if len(nontrivial) < 200000 and (".." in path or "\\" in path or ":" in path):
                                nontrivial.add(hash((path, cwd, b)))
    finally:
        asyncio.set_event_loop(None)
        loop.close()
    return {"violations": viol, "monitors": {"get_paths_contract": n}, "sigs": ["A%x" % (h & 0xFFFFFFFFFFFF) for h in nontrivial],
            "sample": {"base": case["base"], "cwds": case["cwds"], "first_segment": case["firsts"], "max_segments": case["maxseg"],
                       "evaluations": n}}


def run_one(case):
    loop = asyncio.new_event_loop()
    asyncio.set_event_loop(loop)
    try:
        flavour, b = case["base"]
        base = pathlib.PureWindowsPath(b) if flavour == "windows" else pathlib.PurePosixPath(b)
        user = aioftp.User()
        user.base_path = base
        conn = aioftp.Connection(current_directory=pathlib.PurePosixPath(case["cwd"]), user=user)
        r = check_one(conn, base, case["cwd"], case["path"])
        real, virt = aioftp.Server.get_paths(conn, case["path"])
        viol = [] if r is None else [{"key": r[0], "msg": f"get_paths({case}): {r[1]}"}]
        return {"violations": viol, "monitors": {"get_paths_contract": 1}, "sample": {"real": str(real), "virtual": str(virt)}}
    finally:
        asyncio.set_event_loop(None)
        loop.close()


# ----------------------------------------------------------------------------- wire level

USERS = {"u1": ("/srv/u1", "/"), "u2": ("/srv/u2", "/home"), "u3": ("/srv", "/u3/deep"), "u4": ("/srv/u4", "/")}
NAMES = ["a", "b", "f", "home", "deep", "u1", "u2", "u3", "secret"]
HOSTILE = ["..", "../..", "../../..", "/..", "/../..", "//", "//a", "a/..", "a/../..", "./..", "a/./../../x", "...", "/a/../../srv",
           "../u2/secret", "../../srv/u2/secret", "/../u2/secret", "a\\..\\..", "..\\..", "C:", "/C:/x", "a//..//..", "./", "",
           "/srv/u2/secret", "../u1/secret", "home/../../..", "/home/../..", "%2e%2e/x", "a/b/../../../../../../etc", "..;/x"]


def tree_for_users():
    t = {"/srv": DIR}
    for u, (base, home) in USERS.items():
        t[base] = DIR
        for d in ("a", "a/b", "home", "u3", "u3/deep"):
            t[f"{base}/{d}"] = DIR
        t[f"{base}/secret"] = f"secret-of-{u}".encode()
        t[f"{base}/a/f"] = b"file in a"
    t["/outside"] = b"must never be touched"
    t["/etc"] = DIR
    return t


async def wire_case(net, hyg, plan):
    rng = random.Random(plan["seed"])
    users = [aioftp.User(u, "pw", base_path=base, home_path=home) for u, (base, home) in USERS.items()]
    w = W.World(net, tree=None, users=users)
    await w.start()
    w.populate(tree_for_users())
    viol = []
    mon = {"backend_path_inside_base": 0, "pwd_vs_model": 0}
    state = {"user": None, "targets": None, "rnfr": None}
    sess = Session(net, 2121)

    def on_call(spy, op, path):
        if path is None:
            return
        conn = spy.connection
        try:
            user = conn["user"].result() if conn["user"].done() else None
        except Exception:
            user = None
        if user is None:
            viol.append({"key": "backend-touched-without-user", "msg": f"{op}({path}) with no user attached"})
            return
        base = str(user.base_path)
        mon["backend_path_inside_base"] += 1
        raw = str(path)
        flat = posixpath.normpath(raw)
        if state.get("targets"):
            # ... and it is about the location the command addressed (itself, its parent, or what lies below it)
            mon["backend_path_is_addressed_location"] = mon.get("backend_path_is_addressed_location", 0) + 1
            ok = False
            for virt in state["targets"]:
                t = posixpath.normpath(base + "/" + virt.lstrip("/")) if virt != "/" else posixpath.normpath(base)
                if flat == t or flat == posixpath.dirname(t) or flat.startswith(t.rstrip("/") + "/"):
                    ok = True
            if not ok:
                viol.append({"key": f"backend-path-not-the-addressed-location:{op}",
                             "msg": f"user {user.login} (base {base}) step {sess.current_step}: back end {op}({raw}) while the command "
                                    f"addresses virtual {sorted(state['targets'])}"})
        inside = flat == base or flat.startswith(base.rstrip("/") + "/")
        dotdot = ".." in pathlib.PurePosixPath(raw).parts
        if not inside or dotdot:
            step = sess.current_step
            viol.append({"key": f"backend-path-outside-base:{op}",
                         "msg": f"user {user.login} (base {base}) during step {step}: back end {op}({raw})"})
    w.ctl.on_call = on_call
    # the path used for permission lookup (public User.get_permissions) is the normalised absolute form of the location
    # addressed; optional: skipped when that method is not there to be observed
    perm_calls = []
    orig_gp = getattr(aioftp.User, "get_permissions", None)
    if orig_gp is not None:
        def spy_gp(self_, path):
            perm_calls.append(str(path))
            return orig_gp(self_, path)
        aioftp.User.get_permissions = spy_gp

    def check_perm(verb, a, cwd_before, also=None):
        want = norm(cwd_before, ".." if verb == "CDUP" else a)
        for got in perm_calls:
            mon["permission_lookup_path"] = mon.get("permission_lookup_path", 0) + 1
            if got != want and got != also:
                viol.append({"key": f"permission-lookup-path-not-normalised:{verb}",
                             "msg": f"{verb} {a!r} from cwd {cwd_before!r}: permissions were looked up under {got!r}, the location "
                                    f"addressed is {want!r}"})
        del perm_calls[:]
    try:
        await sess.run([["connect"]])
        cwd = None
        cur = None
        transcript = []
        for i in range(plan["length"]):
            r = rng.random()
            if cur is None or r < 0.05:
                cur = rng.choice(sorted(USERS))
                state["rnfr"] = None
                await sess.run([["login", cur, "pw"]])
                cwd = USERS[cur][1]
                transcript.append(["login", cur])
                continue
            if r < 0.12 and transcript and len(transcript[-1]) == 3:
                # re-login as a user with the same home and repeat the previous argument verbatim
                same_home = [u for u in sorted(USERS) if u != cur and USERS[u][1] == USERS[cur][1]] or [u for u in sorted(USERS) if u != cur]
                prev_arg = transcript[-1][1]
                cur = rng.choice(same_home)
                state["rnfr"] = None
                await sess.run([["login", cur, "pw"]])
                cwd = USERS[cur][1]
                transcript.append(["login", cur])
                verb = rng.choice(["MLST", "RMD", "MKD", "DELE", "CWD", "RNFR"])
                del perm_calls[:]
                state["targets"] = {norm(cwd, prev_arg)}
                await sess.run([["cmd", f"{verb} {prev_arg}"]])
                state["targets"] = None
                if verb == "RNFR" and sess.outcomes[-1][:1] == ["350"]:
                    state["rnfr"] = norm(cwd, prev_arg)
                if not sess.alive:
                    break
                check_perm(verb, prev_arg, cwd)
                code = sess.outcomes[-1][0] if sess.outcomes[-1] else None
                transcript.append([verb, prev_arg, sess.outcomes[-1]])
                if verb == "CWD" and code == "250":
                    cwd = norm(cwd, prev_arg)
                continue

            def arg():
                if rng.random() < 0.55:
                    return rng.choice(HOSTILE)
                k = rng.randint(1, 4)
                lead = rng.choice(["", "", "/", "//"])
                return lead + "/".join(rng.choice(NAMES + ["..", "..", ".", ""]) for _ in range(k))
            verb = rng.choice(["CWD", "CWD", "CWD", "CDUP", "PWD", "MKD", "RMD", "DELE", "RNFR", "RNTO", "MLST", "RETR", "STOR",
                               "APPE", "LIST", "MLSD"])
            a = arg()
            del perm_calls[:]
            state["targets"] = {norm(cwd, ".." if verb == "CDUP" else a)} | ({state["rnfr"]} if verb == "RNTO" and state.get("rnfr") else set())
            moved = None
            if verb in ("RETR", "STOR", "APPE", "LIST", "MLSD"):
                if rng.random() < 0.3:
                    # the working directory changes between the mark and the data connection: the transfer still is about
                    # the location addressed when the command was given
                    moved = rng.choice(["/", "a", "..", "/home", "/a/b", "u3/deep"])
                    state["targets"].add(norm(cwd, moved))
                    await sess.run([["epsv"], ["xfer", verb, a, 5, "after", 0, None, 0, ["CWD " + moved]]])
                else:
                    await sess.run([["epsv"], ["xfer", verb, a, 5]])
            elif verb in ("CDUP", "PWD"):
                await sess.run([["cmd", verb]])
            else:
                await sess.run([["cmd", f"{verb} {a}"]])
            state["targets"] = None
            if verb == "RNFR" and sess.outcomes[-1][:1] == ["350"]:
                state["rnfr"] = norm(cwd, a)    # stays until it is used; a superset is enough here
            if not sess.alive:
                break
            code = sess.outcomes[-1][0] if sess.outcomes[-1] else None
            transcript.append([verb, a, sess.outcomes[-1]])
            if verb != "PWD":
                check_perm(verb, a, cwd, norm(cwd, moved) if moved is not None else None)
            if verb == "CWD" and code == "250":
                cwd = norm(cwd, a)
            elif verb == "CDUP" and code == "250":
                cwd = norm(cwd, "..")
            if moved is not None and "b:250" in sess.outcomes[-1]:
                cwd = norm(cwd, moved)
            # PWD probe
            rep = await sess.peer.cmd("PWD")
            mon["pwd_vs_model"] += 1
            if rep in (None, "EOF"):
                viol.append({"key": "session-lost", "msg": f"after {verb} {a!r}: PWD -> {rep}"})
                break
            text = " ".join(rep.lines)
            got = text[text.index('"') + 1:text.rindex('"')] if '"' in text else None
            if rep.code != "257" or got != cwd:
                viol.append({"key": "pwd-differs-from-model", "msg": f"after {transcript[-3:]}: PWD says {text!r}, model cwd {cwd!r}"})
                break
        tree = w.tree()
        if tree.get("/outside") != b"must never be touched":
            viol.append({"key": "file-outside-any-base-modified", "msg": "/outside changed or vanished"})
        sess.peer.cut("fin")
        await w.stop()
        return {"violations": viol, "monitors": mon, "sig": sig_of(transcript), "nontrivial": len(transcript) > 3,
                "sample": {"transcript": transcript[:25]}}
    finally:
        if orig_gp is not None:
            aioftp.User.get_permissions = orig_gp
        w.cleanup()


def run_case(case):
    if case["kind"] == "func":
        return run_function_level(case)
    if case["kind"] == "one":
        return run_one(case)

    async def main(net, hyg):
        return await wire_case(net, hyg, case)
    res, info = W.run(main, seed=case["seed"], net_kwargs=dict(mss=1460, latency=0.0005))
    if res is None:
        return W.failed(info)
    for v in res["violations"]:
        v["replay_case"] = case
    return res


def gen_cases(tier, seed):
    cases = []
    maxseg = 4 if tier == "quick" else 5
    for base in BASES:
        for first in SEGS:
            cases.append({"kind": "func", "base": list(base), "cwds": CWDS, "firsts": [first], "maxseg": maxseg})
    if tier == "thorough":
        for first in SEGS:
            cases.append({"kind": "func", "base": ["posix", "/srv/ftp"], "cwds": ["/a"], "firsts": [first], "maxseg": 6})
            cases.append({"kind": "func", "base": ["windows", "C:\\ftp"], "cwds": ["/a/b"], "firsts": [first], "maxseg": 6})
    n = 300 if tier == "quick" else 5000
    for i in range(n):
        cases.append({"kind": "wire", "seed": seed * 100003 + i, "length": 25})
    return cases
