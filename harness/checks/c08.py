"""C08 - file and directory names mean the same thing in every command and reply."""

import pathlib
import random

from .. import boot  # noqa: F401
from .. import world as W
from ..runner import sig_of
from ..spyfs import DIR
import aioftp

PROPERTY = "C08"
LEVEL = "exploration"
RULE = ("names from a metacharacter-biased generator (double quotes single / doubled / leading / trailing / runs, space runs, "
        "leading space or dash, ';', '=', 'Type=dir;', ' -> ', leading digits and 3-digit prefixes, backslash, '%', tab, "
        "combining and astral code points, NBSP inside; excluded: '/', NUL, CR, LF, names ending in whitespace, '.', '..') at "
        "nesting depth 1..3 (parents are generated names too).  For each name, through the aioftp client against the aioftp "
        "server on a recording back end: MKD, CWD, PWD, upload, MLSD, LIST (raw_command), MLST/stat, download, rename to "
        "another generated name and back, delete, RMD; after every step the back-end tree must contain exactly the "
        "expected objects under exactly those names.  distinct = distinct names; non-trivial = the name contains at least "
        "one non-alphanumeric character.")
RULE += ("  " + 'Also: append_stream, is_file/is_dir, recursive list, high-level download/upload, recursive remove; permission entries on other names that merely share a string prefix with the name; both sides configured with encoding latin-1.')
RULE += ("  " + 'Also: the same relative spelling twice in a row (the directory, then from inside it the file of the same name).')
RULE += ("  " + 'Also (round 9): PASV (not only EPSV) sessions on a latin-1 server.')
ASSUMPTIONS = ["MemoryPathIO back end (names are opaque strings there; a real file system adds its own restrictions)",
               "utf-8 on both sides"]
REQUIRED_MONITORS = ["steps_checked", "pwd_roundtrip", "listing_names"]
ANCHOR_FUNCTIONS = ['server.py:Server.pwd', 'client.py:BaseClient.parse_directory_response', 'server.py:Server.parse_command']
EXHAUSTIVE = {"quick": False, "thorough": False}

PIECES = ['"', '""', '"""', " ", "  ", ";", "=", "Type=dir;", "Type=file;Size=1;", " -> ", "->", "-", "--", "\\", "\\\\", "%", "%20", "%s", "\t",
          "é", "é", "\u2028", "\x85", "\x0c", "\x1c", "€", "ß", "日本", "😀", " ", "​", "'", "`", "$", "&", "*", "?", "[", "]", "{", "}", "(", ")", "|", "<", ">", "~", "#",
          "!", ":", ",", "@", "+", "226", "226 ", "226-", "150 ", "1", "12", "000", "d", "drwx", "-rw-r--r--", ".", "..", "...", "a.", ".a"]
WORDS = ["a", "b", "name", "file", "x", "Z", "dir", "tmp", "0", "7", "foo", "bar"]


def gen_name(rng):
    for _ in range(100):
        n = rng.randint(1, 4)
        parts = []
        for _ in range(n):
            parts.append(rng.choice(PIECES) if rng.random() < 0.6 else rng.choice(WORDS))
        name = "".join(parts)
        if not name or name in (".", "..") or "/" in name or "\0" in name or "\r" in name or "\n" in name:
            continue
        if name[-1].isspace() or name.rstrip() != name:
            name = name + rng.choice(WORDS)
        if len(name.encode()) > 200:
            continue
        return name
    return "fallback name"


FIXED = ['a\u2028b', 'a\x85b', 'x\x0cy', '日本', 'a€', '-la', '-a b', '-2024', '-x', '-l -a', 'a  b  c', '   x   y', 'a"b', '"', '""', 'a""b', 'x"', '"x', '"""', ' lead', '  two lead', '-dash', '-', 'a b', 'a  b', 'semi;colon', 'a=b', 'Type=dir; x',
         'a -> b', '226 done', '226-more', '150', '2', 'back\\slash', 'per%cent', 'tab\there', 'é', '😀', 'nb sp', ' lead-nbsp',
         'C:', 'a:b', '~', '*', '?', '.hidden', 'dots...', 'Jan 01 00:00 x', '-rw-r--r-- 1 a a 0 Jan 01 00:00 x', 'x' * 150]


async def one_name(net, hyg, plan):
    viol = []
    mon = {"steps_checked": 0, "pwd_roundtrip": 0, "listing_names": 0}
    enc = plan.get("encoding")
    users = None
    if plan.get("perm_siblings"):
        # non-default permissions on *other* names that only share characters with the name under test (a proper string
        # prefix of it, it plus a suffix): they must not govern it
        base = pathlib.PurePosixPath("/")
        for par in plan["parents"]:
            base = base / par
        locked = [str(base / x) for x in plan["perm_siblings"]]
        users = [aioftp.User(base_path="/", permissions=[aioftp.Permission("/")] +
                             [aioftp.Permission(x, readable=False, writable=False) for x in locked])]
    w = W.World(net, users=users, **({"encoding": enc} if enc else {}))
    await w.start()
    c = aioftp.Client(path_io_factory=aioftp.MemoryPathIO, **({"encoding": enc} if enc else {}),
                      **({"passive_commands": (plan["passive"],)} if plan.get("passive") else {}))
    try:
        await c.connect("127.0.0.1", 2121)
        await c.login()
        name, other = plan["name"], plan["other"]
        parents = plan["parents"]
        expect = {}
        pp = pathlib.PurePosixPath("/")
        for par in parents:
            pp = pp / par
        step = {"n": 0}

        def check(stepname):
            mon["steps_checked"] += 1
            t = w.tree()
            if t != expect:
                extra = sorted(set(t) - set(expect))
                missing = sorted(set(expect) - set(t))
                viol.append({"key": f"tree-differs-after:{stepname}",
                             "msg": f"name {name!r} (parents {parents}) step {stepname}: back end has extra {extra[:3]}, lacks {missing[:3]}"})
                return False
            return True

        async def guarded(stepname, coro):
            try:
                return True, await coro
            except (aioftp.StatusCodeError, ConnectionError, ValueError, KeyError, IndexError) as e:
                viol.append({"key": f"client-error:{stepname}", "msg": f"name {name!r} (parents {parents}) step {stepname}: {e!r}"[:400]})
                return False, None

        # parents
        q = pathlib.PurePosixPath("/")
        for par in parents:
            q = q / par
            expect[str(q)] = DIR
        if parents:
            ok, _ = await guarded("mkd-parents", c.make_directory(pp))
            if not ok or not check("mkd-parents"):
                return viol, mon
        d = pp / name
        # 1 MKD
        ok, _ = await guarded("mkd", c.make_directory(d))
        expect[str(d)] = DIR
        if not ok or not check("mkd"):
            return viol, mon
        # 2 CWD + PWD
        ok, _ = await guarded("cwd", c.change_directory(d))
        if ok:
            ok, cur = await guarded("pwd", c.get_current_directory())
            mon["pwd_roundtrip"] += 1
            if ok and str(cur) != str(d):
                viol.append({"key": "pwd-differs", "msg": f"after CWD {str(d)!r}: PWD parsed as {str(cur)!r}"})
            # relative use from inside
            ok2, _ = await guarded("mkd-relative", c.make_directory(other))
            if ok2:
                expect[str(d / other)] = DIR
                check("mkd-relative")
                ok3, _ = await guarded("rmd-relative", c.remove_directory(other))
                if ok3:
                    expect.pop(str(d / other), None)
                    check("rmd-relative")
            await guarded("cwd-root", c.change_directory("/"))
        # 3 upload
        f = d / name
        payload = ("content of " + name).encode()
        async def up():
            async with c.upload_stream(f) as s:
                await s.write(payload)
        ok, _ = await guarded("stor", up())
        if ok:
            expect[str(f)] = payload
            check("stor")
        # 4 listings
        for kind, kw in (("mlsd", {}), ("list", {"raw_command": "LIST"})):
            ok, listed = await guarded(kind, c.list(d, **kw))
            if ok:
                mon["listing_names"] += 1
                names = sorted(str(p) for p, info in listed)
                if names != [str(f)]:
                    viol.append({"key": f"{kind}-name-differs", "msg": f"{kind} of {str(d)!r}: got {names}, expected [{str(f)!r}]"})
        # 4b the same through relative spellings from the parent directory
        ok, _ = await guarded("cwd-parent", c.change_directory(pp))
        if ok:
            rel = pathlib.PurePosixPath(name)
            for kind, kw in (("mlsd-relative", {}), ("list-relative", {"raw_command": "LIST"})):
                ok, listed = await guarded(kind, c.list(rel, **kw))
                if ok:
                    mon["listing_names"] += 1
                    names = sorted(str(p) for p, info in listed)
                    if names != [str(rel / name)]:
                        viol.append({"key": f"{kind}-name-differs",
                                     "msg": f"{kind} of {str(rel)!r} from {str(pp)!r}: got {names}, expected [{str(rel / name)!r}]"})
            ok, info = await guarded("mlst-relative", c.stat(rel / name))
            if ok and (info.get("type") != "file" or str(info.get("size")) != str(len(payload))):
                viol.append({"key": "mlst-relative-wrong-object", "msg": f"stat({str(rel / name)!r}) from {str(pp)!r} -> {info}"})
            ok, info = await guarded("mlst-relative-dir", c.stat(rel))
            if ok and info.get("type") != "dir":
                viol.append({"key": "mlst-relative-wrong-object", "msg": f"stat({str(rel)!r}) from {str(pp)!r} -> {info}"})
            # the same relative spelling twice in a row: first it is the directory (entered), then - from inside - the file
            # of the same name (which cannot be entered, but can be looked at and fetched)
            ok, _ = await guarded("cwd-relative", c.change_directory(rel))
            if ok:
                ok, cur = await guarded("pwd-relative", c.get_current_directory())
                if ok and str(cur) != str(d):
                    viol.append({"key": "pwd-differs:relative", "msg": f"CWD {str(rel)!r} from {str(pp)!r}: PWD {str(cur)!r}, expected {str(d)!r}"})
                try:
                    await c.change_directory(rel)
                    ok2, cur2 = await guarded("pwd-relative2", c.get_current_directory())
                    viol.append({"key": "cwd-into-file-accepted", "msg": f"second CWD {str(rel)!r} (now the file {str(f)!r}) was accepted; PWD {cur2}"})
                except aioftp.StatusCodeError:
                    pass
                except (ConnectionError, ValueError) as e:
                    viol.append({"key": "client-error:cwd-relative2", "msg": repr(e)[:200]})
                ok, info = await guarded("mlst-relative-inside", c.stat(rel))
                if ok and (info.get("type") != "file" or str(info.get("size")) != str(len(payload))):
                    viol.append({"key": "mlst-relative-wrong-object", "msg": f"stat({str(rel)!r}) from inside {str(d)!r} -> {info} (the file has "
                                                                             f"{len(payload)} bytes)"})
                ok, ex = await guarded("exists-relative-missing", c.exists(rel / name))
                if ok and ex is not False:
                    viol.append({"key": "exists-true-for-missing", "msg": f"exists({str(rel / name)!r}) from inside {str(d)!r} is {ex}"})
            await guarded("cwd-root2", c.change_directory("/"))
        # 5 stat
        ok, info = await guarded("mlst", c.stat(f))
        if ok and (info.get("type") != "file" or str(info.get("size")) != str(len(payload))):
            viol.append({"key": "mlst-wrong-object", "msg": f"stat({str(f)!r}) -> {info}"})
        ok, ex = await guarded("exists", c.exists(f))
        if ok and ex is not True:
            viol.append({"key": "exists-false", "msg": f"exists({str(f)!r}) is {ex}"})
        # 6 download
        async def down():
            out = b""
            async with c.download_stream(f) as s:
                async for b in s.iter_by_block(1000):
                    out += b
            return out
        ok, got = await guarded("retr", down())
        if ok and got != payload:
            viol.append({"key": "retr-wrong-bytes", "msg": f"download of {str(f)!r}: {got[:40]!r}"})
        # 6b the remaining path-taking methods: append_stream, is_file / is_dir, recursive listing from the parent, the
        # high-level download / upload (local side: the client's own in-memory path io) and recursive remove of a copy
        if str(f) in expect:
            async def app():
                async with c.append_stream(f) as s:
                    await s.write(b"+more")
            ok, _ = await guarded("appe", app())
            if ok:
                expect[str(f)] = expect[str(f)] + b"+more"
                check("appe")
            ok, r1 = await guarded("is_file", c.is_file(f))
            ok2, r2 = await guarded("is_dir", c.is_dir(d))
            ok3, r3 = await guarded("is_file-dir", c.is_file(d))
            if (ok and r1 is not True) or (ok2 and r2 is not True) or (ok3 and r3 is not False):
                viol.append({"key": "is-file-is-dir-wrong", "msg": f"is_file({str(f)!r})={r1} is_dir({str(d)!r})={r2} is_file(dir)={r3}"})
            ok, listed = await guarded("list-recursive", c.list(pp, recursive=True))
            if ok:
                mon["listing_names"] += 1
                got_names = sorted(str(p) for p, info in listed)
                want_names = sorted(k for k in expect if k != str(pp) and (k.startswith(str(pp).rstrip("/") + "/")))
                if got_names != want_names:
                    viol.append({"key": "list-recursive-name-differs", "msg": f"recursive list of {str(pp)!r}: {got_names} expected {want_names}"})
            local = pathlib.PurePosixPath("/local")
            ok, _ = await guarded("download-tree", c.download(d, local, write_into=True))
            if ok:
                try:
                    async with c.path_io.open(local / name, mode="rb") as lf:
                        data = await lf.read()
                except Exception as e:
                    data = repr(e)
                if data != expect[str(f)]:
                    viol.append({"key": "download-tree-wrong", "msg": f"download({str(d)!r}) -> local {name!r}: {data[:40]!r}"})
                copy = pp / ("copy of " + other)
                ok, _ = await guarded("upload-tree", c.upload(local, copy, write_into=True))
                if ok:
                    expect[str(copy)] = DIR
                    expect[str(copy / name)] = expect[str(f)]
                    if check("upload-tree"):
                        ok, _ = await guarded("remove-tree", c.remove(copy))
                        if ok:
                            expect.pop(str(copy))
                            expect.pop(str(copy / name))
                            check("remove-tree")
        # 7 rename to another generated name and back
        g = d / other
        ok, _ = await guarded("rename-to", c.rename(f, g))
        if ok:
            expect[str(g)] = expect.pop(str(f))
            if check("rename-to"):
                ok, _ = await guarded("rename-back", c.rename(g, f))
                if ok:
                    expect[str(f)] = expect.pop(str(g))
                    check("rename-back")
        # 8 delete + rmd
        if str(f) in expect:
            ok, _ = await guarded("dele", c.remove_file(f))
            if ok:
                expect.pop(str(f))
                check("dele")
        if not any(k.startswith(str(d) + "/") for k in expect):
            ok, _ = await guarded("rmd", c.remove_directory(d))
            if ok:
                expect.pop(str(d))
                check("rmd")
        try:
            await c.quit()
        except Exception:
            pass
        return viol, mon
    finally:
        c.close()
        await w.stop()
        w.cleanup()


def classify(name):
    tags = []
    if '"' in name:
        tags.append("quote")
    if any(seg[:1].isspace() for seg in name.split("/")):
        tags.append("leading-blank")
    if "  " in name:
        tags.append("space-run")
    return "+".join(tags) or "other"


def run_case(case):
    out = {"violations": [], "monitors": {}, "sigs": []}
    for plan in case["plans"]:
        async def main(net, hyg, plan=plan):
            return await one_name(net, hyg, plan)
        res, info = W.run(main, seed=plan["seed"], net_kwargs=dict(latency=0.0005))
        if res is None:
            return W.failed(info)
        viol, mon = res
        for k, v in mon.items():
            out["monitors"][k] = out["monitors"].get(k, 0) + v
        if not plan["name"].isalnum():
            out["sigs"].append(sig_of(plan["name"]))
        seen = set()
        for v in viol:
            v["key"] = v["key"] + ":" + classify("/".join(plan["parents"] + [plan["name"]]))
            if v["key"] in seen:
                continue
            seen.add(v["key"])
            v["replay_case"] = {"plans": [plan]}
            out["violations"].append(v)
        out.setdefault("sample", {"name": plan["name"], "other": plan["other"], "parents": plan["parents"], "steps": mon["steps_checked"]})
    return out


def gen_cases(tier, seed):
    rng = random.Random(seed * 977 + 5)
    n = 300 if tier == "quick" else 30000
    names = list(FIXED)
    while len(names) < n:
        names.append(gen_name(rng))
    plans = []
    for i, name in enumerate(names):
        depth = i % 3
        parents = [gen_name(rng) if rng.random() < 0.7 else rng.choice(WORDS) for _ in range(depth)]
        other = gen_name(rng)
        if other == name:
            other = name + "2"
        plan = {"seed": seed * 31 + i, "name": name, "other": other, "parents": parents}
        r = rng.random()
        if r < 0.3:
            sib = [x for x in (name[:max(1, len(name) // 2)], name + "~locked", name[:-1]) if x and x not in (".", "..", name, other)
                   and not x[-1].isspace() and "/" not in x]
            if sib:
                plan["perm_siblings"] = sib
        elif r < 0.5:
            try:
                "/".join([name, other] + parents).encode("latin-1")
                plan["encoding"] = "latin-1"
            except UnicodeEncodeError:
                pass
        if len(plans) % 3 == 0:
            plan["passive"] = "pasv"        # (the client's default asks EPSV first)
        plans.append(plan)
    # names with latin-1 letters on a latin-1 server and client, each passive command
    for j, nm in enumerate(["caf\u00e9", "\u00fcber \u00e4", "na\u00efve; \u00e9=1", "\u00ff\u00a1 x"]):
        for passive in ("pasv", "epsv"):
            plans.append(dict(plans[0], seed=seed * 13 + j, name=nm, other="plain" + str(j), encoding="latin-1", passive=passive, perm_siblings=None))
    per = 8
    return [{"plans": plans[i:i + per]} for i in range(0, len(plans), per)]
