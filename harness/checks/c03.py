"""C03 - nothing is served before a completed login; re-USER drops the old login."""

import asyncio
import itertools
import random

from .. import boot  # noqa: F401
from .. import world as W
from ..ftpmodel import Model
from ..rawpeer import RawPeer
from ..runner import sig_of
from ..spyfs import DIR
import aioftp

PROPERTY = "C03"
LEVEL = "exploration"
RULE = ("raw-peer command histories: all sequences of length <= 3 (quick) / 4 (thorough) over a 16-symbol alphabet "
        "(USER known-with-password / passwordless / unknown / anonymous, PASS right / wrong, and tree, cwd and data-channel "
        "verbs) plus random histories of length <= 25 over the full verb set, on user tables with and without an anonymous "
        "catch-all.  While the authentication model says 'not logged in': no back-end call, no listener, no tree change and "
        "no success reply to any tree/cwd/data verb; whenever it says 'logged in as u': MLST of a per-user marker file "
        "identifies exactly u.  distinct = distinct (command, reply) transcripts; non-trivial = contains a USER or PASS after the "
        "first command.")
RULE += ("  " + 'Also: users with a non-default home_path; accounts whose connection limit is used up by other sessions (USER -> 530, session not identified); USER/PASS that do not complete a login leave the back end alone; re-USER plus further commands written in one burst (0-2 legitimate commands in front) with a user manager and/or back end that really suspend: everything behind the USER is refused and touches nothing.')
RULE += ("  " + 'Also: `USER own, PASS pw, USER victim, ...` in one burst with a password check slower than any wait inside the server.')
RULE += ("  " + 'Also (round 7): user table C, whose catch-all (anonymous) account has a password of its own: no name gets in without it.')
RULE += ("  " + "Also (round 8): a transfer accepted under one login, USER for a password account (331), then the data connection: never the named account's file or tree.")
RULE += ("  " + 'Also (round 9): commands that need a login sent between two USERs of a re-login (answered 503, nothing of the previous account is used); a user manager that times out or is slow to log out; a listing asked for just before the re-login and read after it.')
RULE += ("  " + 'Also (round 10): slow logout notification on a server whose own time-outs (socket, path, wait-future) are shorter than that notification takes.')
RULE += ("  " + 'Also (round 11): REST n + APPE / STOR / RETR behind the second USER.')
ASSUMPTIONS = ["MemoryUserManager (the shipped user manager)", "authentication model = harness/ftpmodel.py USER/PASS rules"]
REQUIRED_MONITORS = ["unauthenticated_command", "identity_probe", "backend_untouched"]
ANCHOR_FUNCTIONS = ['server.py:Server.user', 'server.py:Server.pass_', 'server.py:ConnectionConditions.__call__.<locals>.wrapper']
EXHAUSTIVE = {"quick": True, "thorough": True}

USERS_A = {None: None, "alice": "secret", "bob": None, "carol": "pw2"}
USERS_B = {"alice": "secret", "bob": None, "carol": "pw2"}
USERS_C = {None: "anonpw", "alice": "secret", "bob": None, "carol": "pw2"}     # the catch-all account has a password of its own
TABLES = {"A": USERS_A, "B": USERS_B, "C": USERS_C}
SIZES = {None: 11, "alice": 22, "bob": 33, "carol": 44}
GUARDED = {"PWD", "CWD", "CDUP", "MKD", "RMD", "DELE", "RNFR", "RNTO", "MLST", "LIST", "MLSD", "RETR", "STOR", "APPE", "PASV", "EPSV"}

ALPHABET = [("USER", "anonymous"), ("USER", "alice"), ("USER", "bob"), ("USER", "nobody"), ("PASS", "secret"), ("PASS", "wrong"),
            ("PWD", ""), ("CWD", "/d"), ("MKD", "/made"), ("MLST", "/whoami"), ("RNFR", "/whoami"), ("RNTO", "/stolen"),
            ("DELE", "/whoami"), ("PASV", ""), ("RETR", "/whoami"), ("STOR", "/up")]
FULL = ALPHABET + [("USER", "carol"), ("PASS", "pw2"), ("PASS", ""), ("EPSV", ""), ("APPE", "/whoami"), ("LIST", "/"), ("MLSD", "/d"),
                   ("RMD", "/d"), ("CDUP", ""), ("TYPE", "I"), ("REST", "5"), ("SYST", ""), ("ABOR", ""), ("NOOP", ""), ("pass", "secret"),
                   ("user", "alice"), ("PaSs", "secret"), ("PASS", "secret "), ("USER", "alice "), ("USER", ""), ("PASS", "Secret")]


def base_of(login):
    return "/srv/" + (login or "anon")


def make_tree(users):
    t = {"/srv": DIR}
    for u in users:
        b = base_of(u)
        t[b] = DIR
        t[b + "/d"] = DIR
        t[b + "/d/only-" + (u or "anon")] = b"mine"
        t[b + "/whoami"] = b"x" * SIZES[u]
    return t


class SlowManager(aioftp.MemoryUserManager):
    """the shipped manager with a directory service that takes time: get_user / authenticate really suspend"""

    def __init__(self, users, delay, timeout=None, logout_delay=None):
        super().__init__(users, timeout=timeout)
        self.delay = delay
        self.logout_delay = delay if logout_delay is None else logout_delay

    async def get_user(self, login):
        await asyncio.sleep(self.delay)
        return await super().get_user(login)

    async def authenticate(self, user, password):
        await asyncio.sleep(self.delay)
        return await super().authenticate(user, password)

    async def notify_logout(self, user):
        await asyncio.sleep(self.logout_delay)
        return await super().notify_logout(user)


async def burst_session(net, hyg, plan, w, users, viol, mon):
    """an established login, then `USER <password account>` and further commands written in one piece: everything behind the
    USER is unauthenticated, whatever is still in flight when the lines are parsed"""
    p = RawPeer(net, 2121)
    await p.connect()
    pre = plan["pre"]
    for line in pre:
        await p.cmd(line)
    await net.settle()
    lead = plan.get("lead", 0)      # commands of the burst in front of the USER: legitimate work of the old login (maybe slow)
    ncalls, nlisten, tree0 = len(w.ctl.calls), len(net.servers), w.tree()
    all_lines = plan["burst"]
    p.writer.write("".join(x + "\r\n" for x in all_lines).encode())
    codes = []
    for j, _ in enumerate(all_lines):
        r = await p.read_reply(wait=10)
        codes.append(r.code if r not in (None, "EOF") else str(r))
        if r in (None, "EOF"):
            break
        if r.code.startswith("1"):
            r2 = await p.read_reply(wait=10)
            codes[-1] += "+" + (r2.code if r2 not in (None, "EOF") else str(r2))
        if j == lead - 1:
            # the old login's last command is answered: handlers run one after the other, so from here on only the USER and
            # what follows it can be at work
            ncalls, nlisten, tree0 = len(w.ctl.calls), len(net.servers), w.tree()
    lines, codes_all = all_lines[lead:], codes
    codes = codes[lead:]
    mon["unauthenticated_command"] += len(lines) - 1
    mon["backend_untouched"] += 1
    where = f"after {pre}, burst {all_lines} (user manager delay {plan.get('delay')}, back-end delay {plan.get('bdelay')}): replies {codes_all}"
    served = [(ln, c) for ln, c in zip(lines[1:], codes[1:]) if ln.split(" ")[0].upper() in GUARDED and c[0] in "123"]
    if codes[:1] != ["331"] and not (plan.get("any_refusal") and codes[:1] == ["530"]):
        viol.append({"key": "login-reply-differs:USER", "msg": f"{where}: replies {codes}"})
    if served:
        viol.append({"key": f"served-before-login:{served[0][0].split(' ')[0].upper()}",
                     "msg": f"{where}: replies {codes} - commands behind the USER were served without its password"})
    if len(w.ctl.calls) != ncalls:
        viol.append({"key": "backend-touched-before-login:burst", "msg": f"{where}: back end called {w.ctl.calls[ncalls:][:3]}"})
    if len(net.servers) != nlisten:
        viol.append({"key": "listener-before-login:burst", "msg": f"{where}: a passive listener was opened"})
    if w.tree() != tree0:
        viol.append({"key": "tree-changed-before-login:burst", "msg": f"{where}: the tree changed"})
    mon["identity_probe"] += 1
    pr = await p.cmd("MLST /whoami")
    if pr not in (None, "EOF") and pr.code[0] in "123":
        viol.append({"key": "probe-served-while-logged-out", "msg": f"{where}: MLST afterwards answered {pr.code}"})
    p.cut("fin")
    return [[ln, c] for ln, c in zip(all_lines, codes_all)]


async def session(net, hyg, plan):
    users = TABLES[plan["users"]]
    ucfg = plan.get("ucfg")
    extra = {}
    if ucfg == "home":
        extra = {"home_path": "/d"}         # a non-default home: still nothing of the tree is looked at before the login is complete
    au = [aioftp.User(u, pw, base_path=base_of(u), **extra, **({"maximum_connections": 1} if ucfg == "limit" and u in ("alice", "carol") else {}))
          for u, pw in users.items()]
    w = W.World(net, tree=None, users=SlowManager(au, plan["delay"], timeout=plan.get("manager_timeout"), logout_delay=plan.get("logout_delay"))
                if (plan.get("delay") or plan.get("logout_delay")) else au, **(plan.get("server_kwargs") or {}))
    await w.start()
    w.populate(make_tree(users))
    viol = []
    mon = {"unauthenticated_command": 0, "identity_probe": 0, "backend_untouched": 0}
    transcript = []
    try:
        if plan.get("bdelay"):
            w.ctl.delay = lambda op, path, n: plan["bdelay"]
        if plan.get("late_data"):
            # a transfer accepted under one login; USER for another account (331, no password given) arrives before the data
            # connection is made: whatever is transferred then belongs to the first login, never to the account named last
            first, verb, victim = plan["late_data"]
            p = RawPeer(net, 2121)
            await p.connect()
            await p.cmd("USER " + first)
            if users.get(first) is not None:
                await p.cmd("PASS " + users[first])
            port = p.parse_epsv(await p.cmd("EPSV"))
            target = "/whoami" if verb in ("RETR", "APPE") else ("/d" if verb in ("LIST", "MLSD") else "/up")
            r1 = await p.cmd(f"{verb} {target}")
            r2 = await p.cmd("USER " + victim)
            tree0 = w.tree()
            got, st = b"", None
            try:
                dr, dw = await p.open_data(port)
                if verb in ("STOR", "APPE"):
                    dw.write(b"Z" * 7)
                    dw.close()
                    await p.read_data(dr, wait=5)
                else:
                    got, st = await p.read_data(dr, wait=5)
                    dw.close()
            except OSError:
                st = "refused"
            await net.settle()
            await asyncio.sleep(1.5)
            mon["unauthenticated_command"] += 1
            transcript = [[f"{verb} {target}", str(r1)[:8]], ["USER " + victim, str(r2)[:8]], ["data", st]]
            vb = base_of(victim)
            changed = sorted(k for k in set(w.tree()) | set(tree0) if (k == vb or k.startswith(vb + "/")) and w.tree().get(k) != tree0.get(k))
            if verb in ("LIST", "MLSD") and ("only-" + victim).encode() in bytes(got):
                viol.append({"key": f"served-before-login:{verb}:late-data",
                             "msg": f"logged in as {first!r}: {verb} /d (150), USER {victim} (no password), then the data connection: the listing "
                                    f"shows {victim!r}'s directory: {bytes(got)[:120]!r}"})
            if verb == "RETR" and len(got) == SIZES[victim]:
                viol.append({"key": "served-before-login:RETR:late-data",
                             "msg": f"logged in as {first!r}: RETR /whoami (150), USER {victim} (no password), then the data connection: "
                                    f"{len(got)} bytes arrived - the size of {victim!r}'s file ({first!r}'s has {SIZES.get(first, SIZES[None])})"})
            if changed:
                viol.append({"key": f"tree-changed-before-login:{verb}:late-data",
                             "msg": f"logged in as {first!r}: {verb} {target}, USER {victim} (no password), data connection: {victim!r}'s tree changed at {changed[:3]}"})
            p.cut("fin")
            await w.stop()
            return {"violations": viol, "monitors": mon, "sig": sig_of(transcript), "nontrivial": True,
                    "sample": {"users": plan["users"], "transcript": transcript}}
        if plan.get("burst"):
            transcript = await burst_session(net, hyg, plan, w, users, viol, mon)
            await w.stop()
            return {"violations": viol, "monitors": mon, "sig": sig_of(transcript), "nontrivial": True,
                    "sample": {"users": plan["users"], "transcript": transcript}}
        m = Model(users, {})
        held = set()
        holders = []
        if ucfg == "limit":
            # the accounts with a connection limit of 1 are in use by other sessions: USER for them is refused (530) and must
            # not leave the session identified
            for u in ("alice", "carol"):
                hp = RawPeer(net, 2121, name="holder-" + u)
                await hp.connect()
                await hp.cmd("USER " + u)
                await hp.cmd("PASS " + users[u])
                holders.append(hp)
                held.add(u)
        p = RawPeer(net, 2121)
        await p.connect()
        rng = random.Random(plan["seed"])
        cmds = plan.get("commands")
        n = len(cmds) if cmds else plan["length"]
        for i in range(n):
            verb, arg = cmds[i] if cmds else rng.choice(FULL + [tuple(x) for x in plan.get("extra_alphabet", [])])
            logged_before = m.logged
            ncalls = len(w.ctl.calls)
            nlisten = len(net.servers)
            tree_before = w.tree() if not logged_before else None
            V = verb.upper()
            if V in ("USER", "PASS"):
                e = m.step(V, arg.rstrip())
                if V == "USER" and arg.rstrip() in held:
                    from ..ftpmodel import Expect
                    m.user, m.logged = None, False
                    e = Expect(["530"], note="account at its connection limit")
            line = verb + ((" " + arg) if arg else "")
            r = await p.cmd(line)
            # transfers: a mark may come first
            if r not in (None, "EOF") and r.code.startswith("1"):
                r2 = await p.read_reply()
                code = r2.code if r2 not in (None, "EOF") else str(r2)
                transcript.append([line, "1xx+" + code])
                if not logged_before:
                    viol.append({"key": f"served-before-login:{V}", "msg": f"{transcript}: transfer started without login"})
                r = r2
            else:
                transcript.append([line, r.code if r not in (None, "EOF") else str(r)])
            if r in (None, "EOF"):
                viol.append({"key": f"session-lost:{V}", "msg": f"{transcript}"})
                break
            if V in ("USER", "PASS"):
                if not e.accepts(r.code):
                    viol.append({"key": f"login-reply-differs:{V}", "msg": f"{transcript}: model expects {e}"})
                    break
                if not m.logged:
                    mon["backend_untouched"] += 1
                    if len(w.ctl.calls) != ncalls:
                        viol.append({"key": f"backend-touched-before-login:{V}",
                                     "msg": f"{transcript}: back end called {w.ctl.calls[ncalls:][:3]} by a {V} that did not complete a login"})
            elif not logged_before:
                mon["unauthenticated_command"] += 1
                mon["backend_untouched"] += 1
                if len(w.ctl.calls) != ncalls:
                    viol.append({"key": f"backend-touched-before-login:{V}",
                                 "msg": f"{transcript}: back end called {w.ctl.calls[ncalls:][:3]} while not logged in"})
                if len(net.servers) != nlisten:
                    viol.append({"key": f"listener-before-login:{V}", "msg": f"{transcript}: a passive listener was opened while not logged in"})
                if V in GUARDED and r.code[0] in "123":
                    viol.append({"key": f"served-before-login:{V}", "msg": f"{transcript}: {V} answered {r.code} while not logged in"})
                if w.tree() != tree_before:
                    viol.append({"key": f"tree-changed-before-login:{V}", "msg": f"{transcript}: tree changed while not logged in"})
            # identity probe
            mon["identity_probe"] += 1
            pr = await p.cmd("MLST /whoami")
            if pr in (None, "EOF"):
                viol.append({"key": "session-lost:probe", "msg": f"{transcript}"})
                break
            if not m.logged:
                if pr.code[0] in "123":
                    viol.append({"key": "probe-served-while-logged-out",
                                 "msg": f"{transcript}: model user={m.user!r} logged={m.logged}, MLST answered {pr.code} {pr.lines}"})
                    break
            else:
                who = None if m.user == "<anonymous>" else m.user
                want = f"Size={SIZES[who]};"
                body = " ".join(pr.lines)
                marker_present = (base_of(who) + "/whoami") in w.tree()
                ok = (pr.code == "250" and want in body) if marker_present else (pr.code == "550")
                if not ok:
                    viol.append({"key": "attached-to-wrong-user",
                                 "msg": f"{transcript}: model says logged in as {who!r} (marker present: {marker_present}); "
                                        f"MLST /whoami -> {pr.code} {pr.lines}"})
                    break
        p.cut("fin")
        for hp in holders:
            hp.cut("fin")
        await w.stop()
        nt = any(c[0].upper().startswith(("USER", "PASS")) for c in transcript[1:])
        return {"violations": viol, "monitors": mon, "sig": sig_of(transcript), "nontrivial": nt,
                "sample": {"users": plan["users"], "transcript": transcript[:30]}}
    finally:
        w.cleanup()


def run_case(case):
    out = {"violations": [], "monitors": {}, "sigs": []}
    for plan in case["plans"]:
        async def main(net, hyg, plan=plan):
            return await session(net, hyg, plan)
        res, info = W.run(main, seed=plan["seed"], net_kwargs=dict(latency=0.0005))
        if res is None:
            return W.failed(info)
        for k, v in res["monitors"].items():
            out["monitors"][k] = out["monitors"].get(k, 0) + v
        if res["nontrivial"]:
            out["sigs"].append(res["sig"])
        for v in res["violations"]:
            v["replay_case"] = {"plans": [plan]}
            out["violations"].append(v)
        out.setdefault("sample", res["sample"])
    return out


def gen_cases(tier, seed):
    plans = []
    L = 3 if tier == "quick" else 4
    for users in ("A", "B"):
        for n in range(1, L + 1):
            for idx, seq in enumerate(itertools.product(ALPHABET, repeat=n)):
                if n == L and tier == "thorough" and (idx + seed) % 2:
                    continue
                plans.append({"users": users, "seed": seed, "commands": [list(x) for x in seq]})
    nrand = 300 if tier == "quick" else 6000
    for i in range(nrand):
        plans.append({"users": "A" if i % 2 else "B", "seed": seed * 99991 + i, "length": 25})
    # a catch-all (anonymous) account that has a password of its own: any name leads to it, none gets in without that password
    alpha_c = [("USER", "anonymous"), ("USER", "nobody"), ("USER", "alice"), ("PASS", "anonpw"), ("PASS", "secret"), ("PASS", "wrong"),
               ("PWD", ""), ("MKD", "/made"), ("MLST", "/whoami"), ("PASV", ""), ("RETR", "/whoami")]
    for n in range(1, 4 if tier == "quick" else 5):
        for idx, seq in enumerate(itertools.product(alpha_c, repeat=n)):
            if n == 4 and (idx + seed) % 3:
                continue
            plans.append({"users": "C", "seed": seed, "commands": [list(x) for x in seq]})
    for i in range(60 if tier == "quick" else 1500):
        plans.append({"users": "C", "seed": seed * 31337 + i, "length": 25, "extra_alphabet": [["PASS", "anonpw"]] * 3})
    # non-default user configuration: home_path, accounts at their connection limit
    for ucfg in ("home", "limit"):
        for users in ("A", "B"):
            for n in range(1, 3 if tier == "quick" else 4):
                for idx, seq in enumerate(itertools.product(ALPHABET, repeat=n)):
                    if n == 3 and (idx + seed) % 3:
                        continue
                    plans.append({"users": users, "seed": seed, "ucfg": ucfg, "commands": [list(x) for x in seq]})
        for i in range(60 if tier == "quick" else 2000):
            plans.append({"users": "A" if i % 2 else "B", "seed": seed * 7919 + i, "length": 25, "ucfg": ucfg})
    for first in ("bob", "alice", "anonymous"):
        for verb in ("RETR", "STOR", "APPE", "LIST", "MLSD"):
            for victim in ("alice", "carol"):
                if first != victim:
                    plans.append({"users": "A", "seed": seed, "late_data": [first, verb, victim]})
    # ABOR (and other commands that need no login) between two USERs written in one piece, slow user manager
    for mid in (["ABOR"], ["ABOR", "NOOP"], ["SYST"], ["ABOR", "ABOR"]):
        for acct in ("alice", "carol"):
            for delay in (0.003, 0.02):
                burst = ["USER anonymous"] + mid + ["USER " + acct, "PWD", "MKD /pwned", "MLST /whoami", "EPSV"]
                plans.append({"users": "A", "seed": seed, "pre": [], "lead": 1 + len(mid), "burst": burst, "delay": delay, "bdelay": 0})
    # a user manager with a time-out of its own and a slow logout notification: the second USER still discards the login
    for acct in ("alice", "carol"):
        for pre in (["USER bob"], ["USER anonymous", "CWD /d"]):
            plans.append({"users": "A", "seed": seed, "pre": pre, "burst": ["USER " + acct, "PWD", "MKD /pwned", "MLST /whoami"], "delay": 0,
                          "logout_delay": 0.3, "manager_timeout": 0.05, "bdelay": 0, "any_refusal": True})
            # ... and the server's own time-outs shorter than that notification takes
            for skw in ({"socket_timeout": 0.1}, {"socket_timeout": 0.1, "idle_timeout": 5, "path_timeout": 0.1, "wait_future_timeout": 0.1}):
                plans.append({"users": "A", "seed": seed, "pre": pre, "burst": ["USER " + acct, "PWD", "MKD /pwned", "MLST /whoami"], "delay": 0,
                              "logout_delay": 0.3, "bdelay": 0, "any_refusal": True, "server_kwargs": skw})
    # re-USER and further commands written in one piece, user manager and/or back end that really suspend
    tails = [["PWD", "MKD /pwned", "MLST /whoami", "PASV"], ["CWD /d", "PWD"], ["EPSV", "RETR /whoami"], ["DELE /whoami", "RNFR /whoami"],
             ["STOR /up", "LIST /"], ["PASS wrong", "MLST /whoami", "MKD /x"], ["MLSD /d"], ["PWD"] * 6,
             ["REST 5", "APPE /whoami"], ["REST 3", "STOR /whoami", "REST 2", "RETR /whoami"]]
    for pre in (["USER bob"], ["USER anonymous"], ["USER carol", "PASS pw2"], ["USER bob", "CWD /d"]):
        for acct in ("alice", "carol"):
            for tail in tails:
                for delay, bdelay in ((0, 0), (0.003, 0), (0, 0.002), (0.003, 0.002)):
                    plans.append({"users": "A", "seed": seed, "pre": pre, "burst": ["USER " + acct] + tail, "delay": delay, "bdelay": bdelay})
                    if bdelay and tail is tails[0]:
                        plans.append({"users": "A", "seed": seed, "pre": pre, "lead": 1, "burst": ["MKD /lead", "USER " + acct] + tail,
                                      "delay": delay, "bdelay": bdelay})
                        plans.append({"users": "A", "seed": seed, "pre": pre, "lead": 2, "burst": ["MLST /whoami", "RMD /d", "USER " + acct] + tail[:2],
                                      "delay": delay, "bdelay": bdelay})
    # ... a login whose password check takes longer than any wait inside the server, and a re-USER right behind it
    for own, pw in (("carol", "pw2"), ("alice", "secret")):
        victim = "alice" if own == "carol" else "carol"
        for tail in (["PWD", "MLST /whoami"], ["MKD /pwned", "PASV"], ["PASS wrong", "PWD"], ["RETR /whoami"]):
            for delay in (0.3, 1.5, 4.0):
                plans.append({"users": "A", "seed": seed, "pre": [], "lead": 2, "burst": ["USER " + own, "PASS " + pw, "USER " + victim] + tail,
                              "delay": delay, "bdelay": 0})
    per = 60
    return [{"plans": plans[i:i + per]} for i in range(0, len(plans), per)]
