"""C16 - configured timeouts bound how long a stalled peer can hold a session."""

import asyncio
import random

from .. import boot  # noqa: F401
from .. import world as W
from ..corpus import Session, corpus, corpus_tree, corpus_users, payload_bytes
from ..drive import Drive
from ..runner import sig_of, rearm
import aioftp
import aioftp.common

PROPERTY = "C16"
LEVEL = "fault_enumeration"
RULE = ("every combination of idle_timeout in {None, 4}, socket_timeout in {None, 3}, wait_future_timeout in {1, 2.5, None} x corpus "
        "scripts x a stall delivered right after network event k (every k, strided in quick): the peer goes completely silent "
        "(keeps its sockets, sends nothing, reads nothing) or silent-but-reading; plus 'never connects the data channel', a chatty "
        "session that sends a command every idle_timeout - delta, a flow-controlled download whose peer stops reading, a reply flood "
        "whose peer never reads its control connection, and a data connection made late but inside the wait (any time when the wait "
        "is unlimited: the transfer is served).  "
        "Every StreamIO read/readline/write of the server is recorded with its stream (control/data) and start time; expected "
        "release = min over the operations pending at the stall of start + configured timeout for (channel, direction) "
        "[control read: idle_timeout, control write and data read/write: socket_timeout].  Oracle in virtual time, eps = 4 x "
        "latency: the server closes the stalled transport at expected <= t <= expected + eps, never earlier, not at all when no "
        "timeout applies; 425 at command arrival + wait_future_timeout and the session continues; the chatty session survives; "
        "C12's ledger is clean afterwards.  distinct = distinct (configuration, script, stall position, outcome); non-trivial = a "
        "timeout actually fired.")
RULE += ("  " + 'Also: exact small unsent remainders at close; speed limits (a chatty client and a steadily moving transfer are not given up); black-box bound for a stalled upload.')
RULE += ("  " + 'Also (round 6): the silent peer stalls inside login sequences (password login, wrong password then right one, second USER, wrong password only).')
RULE += ("  " + "Also: reply flood, then QUIT behind a blocked reply writer; a closed stream whose remainder the peer reads before the linger timer fires (nothing may reach the loop's exception handler).")
RULE += ("  " + 'Also (round 8): data connections made some time (< socket_timeout) before their command, several in a row; idle_timeout only: flood, QUIT, silence.')
RULE += ("  " + 'Also (round 9): a handler that never returns with 0..400 commands pipelined behind it, then silence (idle_timeout is about the peer, not about handlers); a second transfer command without a data connection while an upload is in progress (its 425 comes wait_future_timeout after the command).')
RULE += ("  " + 'Also (round 11): two transfer commands written in one piece and ONE data connection: 150, 150, completion of the first, 425 for the second within wait_future_timeout of that connection, PWD.')
ASSUMPTIONS = ["virtual time; commands are delivered in one segment (MSS 1460) so that 'arrival of the command line' is one event",
               "mapping of configured values to channel/direction as documented: idle_timeout = control reads, socket_timeout = "
               "everything else"]
REQUIRED_MONITORS = ["wait_future_425", "chatty_survives", "ledger_after_release", "blackbox_bounds", "late_connect", "linger_bound"]
ANCHOR_FUNCTIONS = ['common.py:_with_timeout.<locals>.decorator.<locals>.wrapper', 'server.py:ConnectionConditions.__call__.<locals>.wrapper']
EXHAUSTIVE = {"quick": False, "thorough": True}

LAT = 0.001
EPS = 4 * LAT + 1e-6


class IOLog:
    """records server-side StreamIO operations (start, end, stream) by wrapping the class methods"""

    def __init__(self, loop):
        self.loop = loop
        self.ops = []   # dict(stream, channel, dir, start, end)
        SIO = getattr(aioftp.common, "StreamIO", None)
        if SIO is None or not all(hasattr(SIO, m) for m in ("read", "readline", "write")):
            self._orig = None   # nothing to instrument: only the black-box bounds remain
            return
        self._orig = (SIO.read, SIO.readline, SIO.write)
        log = self

        def wrap(orig, direction):
            def wrapper(self_, *a, **kw):
                coro = orig(self_, *a, **kw)
                tr = getattr(self_.writer, "transport", None)
                side = getattr(tr, "side", None)
                if side != "accept":
                    return coro
                rec = {"stream": id(self_), "transport": tr, "channel": "control" if tr.conn.port == 2121 else "data", "dir": direction,
                       "start": loop.time(), "end": None, "exc": None}
                log.ops.append(rec)

                async def run():
                    try:
                        return await coro
                    except BaseException as e:
                        rec["exc"] = type(e).__name__
                        raise
                    finally:
                        rec["end"] = loop.time()
                return run()
            return wrapper
        SIO.read = wrap(self._orig[0], "read")
        SIO.readline = wrap(self._orig[1], "read")
        SIO.write = wrap(self._orig[2], "write")

    def restore(self):
        if self._orig is None:
            return
        SIO = aioftp.common.StreamIO
        SIO.read, SIO.readline, SIO.write = self._orig


def saw_mark(sess):
    """the peer has read a 1xx mark as its last reply: the transfer of the current step is under way"""
    last = None
    for entry in getattr(sess.peer, "transcript", []):
        if entry and entry[0] == "S":
            last = entry[1]
    return bool(last) and str(last)[:1] == "1"


def conf_timeout(cfg, channel, direction):
    if channel == "control" and direction == "read":
        return cfg["idle"]
    return cfg["sock"]


async def execute(net, hyg, plan):
    loop = asyncio.get_running_loop()
    cfg = plan["cfg"]
    viol = []
    mon = {"release_time": 0, "no_release_without_timeout": 0, "wait_future_425": 0, "chatty_survives": 0, "ledger_after_release": 0}
    iolog = IOLog(loop)
    w = W.World(net, tree=corpus_tree([""]), users=corpus_users, idle_timeout=cfg["idle"], socket_timeout=cfg["sock"],
                wait_future_timeout=cfg["wft"], **(plan.get("server_kwargs") or {}))
    try:
        await w.start()
        kind = plan["kind"]
        fired = False
        if kind == "stall":
            script = corpus("")[plan["script"]]
            d = Drive(net, w, [script], cut={"k": plan["k"], "action": plan["action"], "who": 0})
            await d.run()
            if not d.cut_done:
                d.finish_peers()
                await w.stop()
                return {"violations": [], "monitors": mon, "sig": None, "nontrivial": False, "nevents": len(net.events), "cut_done": False}
            t_stall = d.cut_time
            horizon = 12.0
            await asyncio.sleep(horizon)
            await net.settle()
            sess = d.sessions[0]
            where = f"cfg {cfg} script {plan['script']} {plan['action']} after event {plan['k']} (step {sess.current_step})"
            timed = []
            for o in iolog.ops:
                to = conf_timeout(cfg, o["channel"], o["dir"])
                if to:
                    timed.append((o["start"] + to, o))
                elif o["exc"] == "TimeoutError":
                    viol.append({"key": f"timeout-without-configuration:{o['channel']}-{o['dir']}",
                                 "msg": f"{where}: a {o['channel']} {o['dir']} started {o['start'] - 1000:.4f} ended with TimeoutError at "
                                        f"{o['end'] - 1000:.4f} although no timeout is configured for it"})
            for t, o in timed:
                if o["exc"] == "TimeoutError" and o["end"] < t - EPS:
                    viol.append({"key": f"released-early:{o['channel']}-{o['dir']}",
                                 "msg": f"{where}: {o['channel']} {o['dir']} started {o['start'] - 1000:.4f} timed out at {o['end'] - 1000:.4f}, "
                                        f"bound {t - 1000:.4f}"})
            due = [(t, o) for t, o in timed if o["end"] is None or o["end"] >= t - 1e-9]
            quit_sent = bool(sess.current_step and sess.current_step[0] == "quit")
            if due and not quit_sent:
                expected, op = min(due, key=lambda x: x[0])
                target = op["transport"]
                mon["release_time"] += 1
                fired = True
                got = target.close_called_at
                if got is None or op["end"] is None:
                    viol.append({"key": f"not-released:{op['channel']}-{op['dir']}",
                                 "msg": f"{where}: a {op['channel']} {op['dir']} pending since {op['start'] - 1000:.4f} with timeout "
                                        f"{conf_timeout(cfg, op['channel'], op['dir'])} was never given up (observed {horizon}s)"})
                elif got > expected + EPS:
                    viol.append({"key": f"released-late:{op['channel']}-{op['dir']}",
                                 "msg": f"{where}: transport closed at {got - 1000:.4f}, bound was {expected - 1000:.4f}"})
            elif not due:
                mon["no_release_without_timeout"] += 1
            # black-box upper bounds, independent of the StreamIO instrumentation (a write or read that bypasses the
            # instrumented methods must still be bounded)
            if not quit_sent:
                for tr in net.transports:
                    if tr.side != "accept" or tr.conn.client.state != "open":
                        continue
                    mon["blackbox_bounds"] = mon.get("blackbox_bounds", 0) + 1
                    chan = "control" if tr.conn.port == 2121 else "data"
                    if cfg["sock"] and tr.write_paused_at is not None:
                        limit_t = tr.write_paused_at + cfg["sock"] + EPS
                        if tr.close_called_at is None or tr.close_called_at > limit_t:
                            viol.append({"key": f"not-released:{chan}-write-blackbox",
                                         "msg": f"{where}: the {chan} connection could not be written since {tr.write_paused_at - 1000:.4f} "
                                                f"(peer not reading), socket_timeout {cfg['sock']}: closed at "
                                                f"{tr.close_called_at and round(tr.close_called_at - 1000, 4)}"})
                    st_ = sess.current_step or []
                    if chan == "data" and cfg["sock"] and st_[:1] == ["xfer"] and st_[1] in ("STOR", "APPE") and saw_mark(sess):
                        # an upload that was announced (150 seen by the peer) and whose sender fell silent: whatever reads the
                        # data connection gives up socket_timeout after the last bytes arrived
                        last_in = max(tr.last_data_in_at or tr.created_at, t_stall)
                        limit_t = last_in + cfg["sock"] + EPS + 2 * LAT
                        if tr.close_called_at is None or tr.close_called_at > limit_t:
                            viol.append({"key": "not-released:data-read-blackbox",
                                         "msg": f"{where}: upload stalled, last data bytes arrived at {last_in - 1000:.4f}, socket_timeout "
                                                f"{cfg['sock']}: data connection closed at "
                                                f"{tr.close_called_at and round(tr.close_called_at - 1000, 4)}"})
                    if chan == "control" and cfg["idle"]:
                        last = tr.last_data_in_at or tr.created_at
                        if tr.close_called_at is None or tr.close_called_at > last + cfg["idle"] + EPS:
                            viol.append({"key": "not-released:control-read-blackbox",
                                         "msg": f"{where}: last control bytes arrived at {last - 1000:.4f}, idle_timeout {cfg['idle']}: "
                                                f"closed at {tr.close_called_at and round(tr.close_called_at - 1000, 4)}"})
            # whatever the server gave up must not stay in the peer's hands: with socket_timeout configured a closed
            # stream whose unsent bytes the peer never reads is torn down within that time (judged while the peer is
            # still there, silent)
            mon["linger_bound"] = mon.get("linger_bound", 0) + 1
            for leak in w.leaks():
                if leak.startswith("lingering-transport"):
                    chan = "control" if "(port 2121)" in leak else "data"
                    viol.append({"key": f"socket-held-after-release:{chan}", "msg": f"{where}: {leak}"})
            d.finish_peers()
        elif kind == "noconnect":
            s = Session(net, 2121)
            await s.run([["connect"], ["login"], ["epsv"]])
            t_before = len(net.events)
            marks = {}

            def hook(idx, conn, direction, k_, n):
                if conn is s.peer.conn and direction == "c2s" and k_ == "DATA":
                    marks["cmd_arrival"] = loop.time()
            net.on_event = hook
            s.peer.send(f"{plan['verb']} /f.bin")
            r1 = await s.peer.read_reply(wait=10)
            r2 = await s.peer.read_reply(wait=10)
            net.on_event = None
            mon["wait_future_425"] += 1
            fired = True
            where = f"cfg {cfg} {plan['verb']} without data connection"
            codes = [r.code if r not in (None, "EOF") else str(r) for r in (r1, r2)]
            if codes != ["150", "425"]:
                viol.append({"key": "noconnect-wrong-replies", "msg": f"{where}: replies {codes}"})
            else:
                expected = marks["cmd_arrival"] + cfg["wft"]
                got = r2.t - LAT  # reply is stamped at arrival at the peer
                if got < expected - EPS:
                    viol.append({"key": "425-early", "msg": f"{where}: 425 sent at ~{got - 1000:.4f}, bound {expected - 1000:.4f}"})
                elif got > expected + EPS:
                    viol.append({"key": "425-late", "msg": f"{where}: 425 sent at ~{got - 1000:.4f}, bound {expected - 1000:.4f}"})
                r3 = await s.peer.cmd("PWD", wait=10)
                if r3 in (None, "EOF") or r3.code != "257":
                    viol.append({"key": "session-lost-after-425", "msg": f"{where}: PWD -> {r3}"})
            s.peer.cut("fin")
        elif kind == "throttled":
            # speed limits make the server pause; those pauses are not the peer's silence: a client that keeps talking within
            # idle_timeout and a transfer that keeps moving are not given up
            s = Session(net, 2121)
            await s.run([["connect"], ["login"], ["cmd", "TYPE I"]])
            mon["throttled_not_dropped"] = mon.get("throttled_not_dropped", 0) + 1
            fired = True
            where = f"cfg {cfg} with {plan['server_kwargs']}, {plan['what']}"
            if plan["what"] == "chatty":
                lines = ["MKD /" + "x" * 190 + str(i) for i in range(plan["rounds"])]
                for ln in lines:
                    s.peer.send(ln)
                    await asyncio.sleep(plan["every"])
                codes = []
                for _ in lines:
                    r = await s.peer.read_reply(wait=120)
                    codes.append(r.code if r not in (None, "EOF") else str(r))
                    if r in (None, "EOF"):
                        break
                if codes != ["257"] * len(lines):
                    viol.append({"key": "chatty-session-dropped:throttled",
                                 "msg": f"{where}: a {len(lines[0])}-byte command every {plan['every']}s (idle_timeout {cfg['idle']}): replies {codes}"})
            else:
                up = plan["what"] == "upload"
                await s.run([["epsv"], ["xfer", "STOR", "/thr.bin", plan["size"], "before", 3, 4096, 0] if up else ["xfer", "RETR", "/f.bin"]])
                codes = [c for c in s.outcomes[-1] if c.isdigit()]
                ok = codes == ["150", "226"] and (w.tree().get("/thr.bin") == payload_bytes(plan["size"], 3) if up
                                                   else s.downloads[-1][2] == corpus_tree([""])["/f.bin"])
                if not ok:
                    viol.append({"key": "moving-transfer-given-up:throttled",
                                 "msg": f"{where}: the data kept flowing at the limited rate (socket_timeout {cfg['sock']}): {s.outcomes[-1]}"})
            if s.alive:
                r = await s.peer.cmd("PWD", wait=120)
                if r in (None, "EOF") or r.code != "257":
                    viol.append({"key": "session-lost:throttled", "msg": f"{where}: PWD afterwards -> {r}"})
            s.peer.cut("fin")
        elif kind == "rest":
            # the peer never reads its control connection; commands are sent until the network takes no more and then until
            # `rest` unsent reply bytes sit in the server's transport; silence.  The session is dropped by its timeouts and
            # the closed socket must not stay in the peer's hands longer than socket_timeout (small remainders included)
            s = Session(net, 2121)
            await s.run([["connect"], ["login"]])
            s.peer.writer.transport.pause_reading()
            tr = s.peer.conn.server_side
            line = ("X" * 60 + "\r\n").encode()
            sent = 0
            while tr.get_write_buffer_size() < plan["rest"] and sent < 4000:
                s.peer.writer.write(line)
                sent += 1
                await asyncio.sleep(0.004)
                if plan.get("then_quit") and tr.write_paused_at is not None:
                    break       # the reply writer is blocked now: QUIT at once, well inside socket_timeout
            rest = tr.get_write_buffer_size()
            where = f"cfg {cfg} reply flood, peer silent with {rest} unsent reply bytes in the server's transport"
            t_stall = loop.time()
            if plan.get("then_quit"):
                # the peer's last word is QUIT (never read either): the session is over, its reply writer is blocked
                s.peer.writer.write(b"QUIT\r\n")
                where += " and a final QUIT"
            if plan.get("then_read"):
                # ... until the server has given the session up; then it reads everything after all, well inside socket_timeout:
                # the closed transport flushes and finishes on its own, and whatever was armed to tear it down finds it gone
                for _ in range(200):
                    if tr.close_called_at is not None:
                        break
                    await asyncio.sleep(0.1)
                s.peer.writer.transport.resume_reading()
                drain = asyncio.ensure_future(s.peer.read_data(s.peer.reader, wait=3))
                await asyncio.sleep(cfg["sock"] + 2.0 if cfg["sock"] else 5.0)
                drain.cancel()
                where += ", which the peer read after the session had been dropped"
            await asyncio.sleep(12.0)
            mon["linger_bound"] = mon.get("linger_bound", 0) + 1
            fired = True
            if cfg["sock"] and tr.write_paused_at is not None and rest > 65536:
                # the reply writer could not write since write_paused_at: given up socket_timeout later, whatever else goes on
                limit_t = tr.write_paused_at + cfg["sock"] + EPS
                if tr.close_called_at is None or tr.close_called_at > limit_t + 0.5:
                    viol.append({"key": "not-released:control-write-blackbox",
                                 "msg": f"{where}: replies could not be written since {tr.write_paused_at - 1000:.3f}, socket_timeout "
                                        f"{cfg['sock']}: closed at {tr.close_called_at and round(tr.close_called_at - 1000, 3)}; "
                                        f"Server.connections has {len(w.server.connections)} entries"})
            if cfg["idle"] or cfg["sock"]:
                # (without idle_timeout a silent session whose reply writer is not blocked is legitimately kept)
                if cfg["idle"] and tr.close_called_at is None:
                    viol.append({"key": "not-released:control-rest", "msg": f"{where}: session never dropped"})
                for leak in w.leaks():
                    if leak.startswith("lingering-transport"):
                        viol.append({"key": "socket-held-after-release:control", "msg": f"{where}: {leak}"})
            s.peer.cut("fin")
        elif kind == "lateconnect":
            # the data connection is made `delay` seconds after the command: inside the configured wait (or any time when
            # the wait is unlimited) the transfer must go through
            s = Session(net, 2121)
            await s.run([["connect"], ["login"], ["cmd", "TYPE I"], [plan.get("pcmd", "epsv")]])
            verb, delay = plan["verb"], plan["delay"]
            s.peer.send({"RETR": "RETR /f.bin", "STOR": "STOR /late.bin"}.get(verb, verb + " /dir"))
            r1 = await s.peer.read_reply(wait=10)
            await asyncio.sleep(delay)
            where = f"cfg {cfg} {verb}, data connection made {delay}s after the command"
            mon["late_connect"] = mon.get("late_connect", 0) + 1
            fired = True
            try:
                dr, dw = await s.peer.open_data(s.pasv_port)
            except OSError as e:
                dr = dw = None
                viol.append({"key": "late-connect-refused", "msg": f"{where}: listener gone ({e!r}) after 150"})
            if dw is not None:
                if verb == "STOR":
                    dw.write(b"z" * 5000)
                    dw.close()
                    got = None
                else:
                    got, _status = await s.peer.read_data(dr, wait=10)
                r2 = await s.peer.read_reply(wait=10)
                codes = [r.code if r not in (None, "EOF") else str(r) for r in (r1, r2)]
                if codes not in (["150", "226"], ["150", "200"]):
                    viol.append({"key": "late-connect-not-served" if "425" in codes else "late-connect-wrong-replies",
                                 "msg": f"{where}: replies {codes} (wait_future_timeout {cfg['wft']})"})
                elif verb == "RETR" and got != corpus_tree([""])["/f.bin"]:
                    viol.append({"key": "late-connect-wrong-data", "msg": f"{where}: {len(got or b'')} bytes"})
                elif verb == "STOR" and w.tree().get("/late.bin") != b"z" * 5000:
                    viol.append({"key": "late-connect-wrong-data", "msg": f"{where}: stored {len(w.tree().get('/late.bin') or b'')} bytes"})
                r3 = await s.peer.cmd("PWD", wait=10)
                if r3 in (None, "EOF") or r3.code != "257":
                    viol.append({"key": "session-lost-after-late-connect", "msg": f"{where}: PWD -> {r3}"})
            s.peer.cut("fin")
        elif kind == "early_data":
            # several transfers in a row, the data connection of each made some time before its command: a data connection that
            # has been waiting for less than socket_timeout is used, whatever earlier data connections of the session did
            s = Session(net, 2121)
            await s.run([["connect"], ["login"], ["cmd", "TYPE I"], [plan.get("pcmd", "epsv")]])
            fired = True
            mon["early_data"] = mon.get("early_data", 0) + 1
            want = corpus_tree([""])["/f.bin"]
            for rnd, (gap_before, gap_after) in enumerate(plan["gaps"]):
                await asyncio.sleep(gap_before)
                try:
                    dr, dw = await s.peer.open_data(s.pasv_port)
                except OSError as e:
                    viol.append({"key": "data-connection-refused", "msg": f"cfg {cfg} round {rnd}: {e!r}"})
                    break
                await asyncio.sleep(gap_after)
                s.peer.send("RETR /f.bin")
                r1 = await s.peer.read_reply(wait=10)
                got, _st = await s.peer.read_data(dr, wait=10)
                dw.close()
                r2 = await s.peer.read_reply(wait=10)
                codes = [r.code if r not in (None, "EOF") else str(r) for r in (r1, r2)]
                if codes != ["150", "226"] or got != want:
                    viol.append({"key": "waiting-data-connection-dropped-early",
                                 "msg": f"cfg {cfg}, transfer {rnd}: data connection made {gap_after}s before its RETR ({gap_before}s after the "
                                        f"previous transfer): replies {codes}, {len(got or b'')} of {len(want)} bytes"})
                    break
            s.peer.cut("fin")
        elif kind == "hung_backend":
            # a handler that never returns (storage call hangs, path_timeout None) with `behind` further commands pipelined behind
            # it in the same write, then silence: the idle timer is the peer's silence, not the handlers' business
            w.ctl.delay = lambda op, path, n: 1e6 if path is not None and str(path).endswith("hang") else 0
            s = Session(net, 2121)
            await s.run([["connect"], ["login"]])
            tr = s.peer.conn.server_side
            s.peer.writer.write(("MLST /hang\r\n" + "".join(plan["cmds"][i % len(plan["cmds"])] + "\r\n" for i in range(plan["behind"]))).encode())
            await asyncio.sleep(2 * LAT + 0.01)
            last = tr.last_data_in_at or tr.created_at
            await asyncio.sleep(cfg["idle"] + 3.0)
            mon["release_time"] += 1
            fired = True
            where = f"cfg {cfg}: 'MLST /hang' (storage call never returns) and {plan['behind']} commands behind it in one write, then silence"
            if tr.close_called_at is None:
                viol.append({"key": "not-released:control-read-behind-hung-handler",
                             "msg": f"{where}: last control bytes arrived at {last - 1000:.4f}, idle_timeout {cfg['idle']}: session still there "
                                    f"{loop.time() - last:.1f}s later; Server.connections has {len(w.server.connections)} entries"})
            elif tr.close_called_at > last + cfg["idle"] + EPS:
                viol.append({"key": "released-late:control-read-behind-hung-handler",
                             "msg": f"{where}: last control bytes at {last - 1000:.4f}, dropped at {tr.close_called_at - 1000:.4f}"})
            elif tr.close_called_at < last + cfg["idle"] - EPS - 2 * LAT:
                viol.append({"key": "released-early:control-read-behind-hung-handler",
                             "msg": f"{where}: last control bytes at {last - 1000:.4f}, dropped at {tr.close_called_at - 1000:.4f}"})
            s.peer.cut("fin")
        elif kind == "second_transfer":
            # an upload in progress (the peer sends a piece every now and then, inside socket_timeout) and a second transfer command
            # for which no data connection is ever made: its wait is bounded by wait_future_timeout from the command, whatever the
            # first transfer does
            s = Session(net, 2121)
            await s.run([["connect"], ["login"], ["cmd", "TYPE I"], ["epsv"]])
            dr, dw = await s.peer.open_data(s.pasv_port)
            s.peer.send("STOR /slow.bin")
            r0 = await s.peer.read_reply(wait=10)
            dw.write(b"a" * 1000)
            await asyncio.sleep(plan["gap"])
            marks = {}

            def hook(idx, conn, direction, k_, n):
                if conn is s.peer.conn and direction == "c2s" and k_ == "DATA":
                    marks.setdefault("cmd_arrival", loop.time())
            net.on_event = hook
            s.peer.send(plan["second"])
            pieces = 0

            async def feeder():
                nonlocal pieces
                while pieces < plan["pieces"]:
                    await asyncio.sleep(plan["every"])
                    dw.write(b"b" * 1000)
                    pieces += 1
                dw.close()
            ft = asyncio.ensure_future(feeder())
            r1 = await s.peer.read_reply(wait=60)
            r2 = await s.peer.read_reply(wait=60)
            net.on_event = None
            await ft
            r3 = await s.peer.read_reply(wait=60)
            mon["wait_future_425"] += 1
            fired = True
            where = (f"cfg {cfg}: upload in progress ({plan['pieces']} pieces, one every {plan['every']}s), then '{plan['second']}' "
                     f"without a data connection")
            codes = [r.code if r not in (None, "EOF") else str(r) for r in (r0, r1, r2, r3)]
            if codes != ["150", "150", "425", "226"]:
                viol.append({"key": "second-transfer-wrong-replies", "msg": f"{where}: replies {codes}"})
            else:
                expected = marks["cmd_arrival"] + cfg["wft"]
                got = r2.t - LAT
                if got > expected + EPS:
                    viol.append({"key": "425-late:behind-another-transfer",
                                 "msg": f"{where}: 425 sent at ~{got - 1000:.4f}, bound {expected - 1000:.4f} (command + wait_future_timeout)"})
                elif got < expected - EPS:
                    viol.append({"key": "425-early", "msg": f"{where}: 425 sent at ~{got - 1000:.4f}, bound {expected - 1000:.4f}"})
                if w.tree().get("/slow.bin") != b"a" * 1000 + b"b" * 1000 * plan["pieces"]:
                    viol.append({"key": "second-transfer-disturbed-first", "msg": f"{where}: stored {len(w.tree().get('/slow.bin') or b'')} bytes"})
                r4 = await s.peer.cmd("PWD", wait=10)
                if r4 in (None, "EOF") or r4.code != "257":
                    viol.append({"key": "session-lost-after-425", "msg": f"{where}: PWD -> {r4}"})
            s.peer.cut("fin")
        elif kind == "two_transfers_one_data":
            # two transfer commands written in one piece, ONE data connection made afterwards: the first transfer takes it, the
            # second one's data connection is never made - answered 425 within its bound, and the session goes on
            s = Session(net, 2121)
            await s.run([["connect"], ["login"], ["cmd", "TYPE I"], [plan.get("pcmd", "epsv")]])
            s.peer.writer.write(("\r\n".join(plan["pair"]) + "\r\n").encode())
            await asyncio.sleep(plan["gap"])
            t_conn = loop.time()
            dr, dw = await s.peer.open_data(s.pasv_port)
            if plan["pair"][0].startswith(("STOR", "APPE")):
                dw.write(b"q" * 3000)
                dw.close()
            else:
                await s.peer.read_data(dr, wait=10)
                dw.close()
            replies = []
            for _ in range(4):
                r = await s.peer.read_reply(wait=cfg["wft"] * 2 + 5)
                replies.append(r)
                if r in (None, "EOF"):
                    break
            mon["wait_future_425"] += 1
            fired = True
            codes = [r.code if r not in (None, "EOF") else str(r) for r in replies]
            where = f"cfg {cfg}: {plan['pair']} in one write, one data connection {plan['gap']}s later"
            if sorted(codes) != sorted(["150", "150", "425", "226" if not plan["pair"][0].startswith("MLSD") else "200"]):
                viol.append({"key": "second-transfer-without-data-connection-not-answered-425" if "EOF" in codes or "None" in codes
                             else "two-transfers-wrong-replies", "msg": f"{where}: replies {codes}"})
            else:
                r425 = next(r for r in replies if r.code == "425")
                if r425.t - LAT > t_conn + cfg["wft"] + EPS + 2 * LAT:
                    viol.append({"key": "425-late", "msg": f"{where}: 425 at {r425.t - 1000:.4f}, the one data connection was made at "
                                                           f"{t_conn - 1000:.4f}, wait_future_timeout {cfg['wft']}"})
                r5 = await s.peer.cmd("PWD", wait=10)
                if r5 in (None, "EOF") or r5.code != "257":
                    viol.append({"key": "session-lost-after-425", "msg": f"{where}: PWD -> {r5}"})
            s.peer.cut("fin")
        elif kind == "chatty":
            s = Session(net, 2121)
            await s.run([["connect"], ["login"]])
            delta = plan["delta"]
            ok = True
            for i in range(plan["rounds"]):
                await asyncio.sleep(cfg["idle"] - delta)
                r = await s.peer.cmd(plan["cmds"][i % len(plan["cmds"])], wait=5)
                if r in (None, "EOF"):
                    ok = False
                    viol.append({"key": "chatty-session-dropped",
                                 "msg": f"cfg {cfg}: command every {cfg['idle'] - delta}s; dropped at round {i} ({r})"})
                    break
            mon["chatty_survives"] += 1
            if ok:
                # now fall silent: dropped idle_timeout after the last command line arrived
                t_last = loop.time() - 2 * LAT  # last command left 2 latencies before its reply arrived
                await asyncio.sleep(cfg["idle"] + 1.0)
                tr = s.peer.conn.server_side
                mon["release_time"] += 1
                fired = True
                if tr.close_called_at is None:
                    viol.append({"key": "not-released:control-read", "msg": f"cfg {cfg}: silent session not dropped after idle_timeout"})
                elif abs(tr.close_called_at - (t_last + LAT + cfg["idle"])) > EPS + 2 * LAT:
                    viol.append({"key": "released-late:control-read" if tr.close_called_at > t_last + cfg["idle"] else "released-early:control-read",
                                 "msg": f"cfg {cfg}: last command arrived ~{t_last + LAT - 1000:.4f}, dropped at {tr.close_called_at - 1000:.4f}"})
            s.peer.cut("fin")
        # ledger after everything: whatever was released must be released completely
        await net.quiesce(1.0)
        mon["ledger_after_release"] += 1
        for leak in w.leaks():
            viol.append({"key": f"leak-after-timeout:{leak.split(' ')[0]}", "msg": f"{plan}: {leak}"})
        await w.stop()
        return {"violations": viol, "monitors": mon, "nevents": len(net.events), "cut_done": True,
                "sig": sig_of([plan, [v["key"] for v in viol]]), "nontrivial": fired}
    finally:
        iolog.restore()
        w.cleanup()


def run_plan(plan):
    rearm()
    async def main(net, hyg):
        return await execute(net, hyg, plan)
    res, info = W.run(main, seed=plan.get("seed", 0), net_kwargs=dict(mss=1460, latency=LAT))
    if res is None:
        return W.failed(info, f"plan={plan}")
    for e in info["hygiene"].serious_loop_errors():
        if "TimeoutError" in str(e) or "never retrieved" in str(e.get("message", "")):
            continue    # the time-outs under test surface in the dispatcher's own log, not here
        res["violations"].append({"key": "exception-reached-loop", "msg": f"plan {plan}: {e}"})
    return res


def run_case(case):
    out = {"violations": [], "monitors": {}, "sigs": [], "stats": {}}

    def merge(res, plan):
        if res.get("inconclusive"):
            out["inconclusive"] = res["inconclusive"]
            out["trace"] = res.get("trace", "")
            return False
        for k, v in res["monitors"].items():
            out["monitors"][k] = out["monitors"].get(k, 0) + v
        if res["nontrivial"] and res["sig"]:
            out["sigs"].append(res["sig"])
        for v in res["violations"]:
            v["replay_case"] = {"kind": "single", "plan": plan}
            out["violations"].append(v)
        return True
    if case["kind"] == "single":
        res = run_plan(case["plan"])
        merge(res, case["plan"])
        out["sample"] = {"plan": case["plan"]}
        return out
    base = case["plan"]
    # count events of the fault-free run
    res0 = run_plan(dict(base, k=10 ** 9))
    if not merge(res0, base):
        return out
    N = res0["nevents"]
    n = 0
    for k in range(case.get("phase", 0), N, case.get("stride", 1)):
        plan = dict(base, k=k)
        res = run_plan(plan)
        if not merge(res, plan):
            return out
        n += 1
    out["stats"]["stall_positions_covered"] = n
    out["sample"] = {"cfg": base["cfg"], "script": base["script"], "action": base["action"], "events": N, "stall_positions": n}
    return out


def gen_cases(tier, seed):
    rng = random.Random(seed * 41 + 3)
    cases = []
    cfgs = [{"idle": i, "sock": s, "wft": wv} for i in (None, 4) for s in (None, 3) for wv in (1, 2.5)]
    scripts = ["walk", "stor_slow", "retr_pasv", "mlsd", "two_transfers", "retr_huge", "login_retry", "relogin"] if tier == "quick" else \
        ["login_quit", "login_pw", "login_retry", "login_bad_pw", "relogin", "walk", "stor_slow", "stor_pasv", "retr_pasv", "retr_epsv_after", "mlsd", "list", "two_transfers", "retr_huge",
         "rename", "pasv_twice", "appe"]
    for cfg in cfgs:
        for name in scripts + ["flood"]:
            for action in ("stall-noread", "stall"):
                stride = (11 if name == "retr_huge" else 4) if tier == "quick" else (5 if name == "retr_huge" else 1)
                if name == "flood":
                    # the peer never reads its replies (every buffer on the way back fills up) and then goes silent
                    if action == "stall" or cfg["wft"] != 1:
                        continue
                    stride = 131 if tier == "quick" else 17
                cases.append({"kind": "enum", "stride": stride, "phase": (seed + len(cases)) % stride,
                              "plan": {"kind": "stall", "cfg": cfg, "script": name, "action": action, "seed": seed}})
        for verb in ("RETR", "LIST", "STOR"):
            cases.append({"kind": "single", "plan": {"kind": "noconnect", "cfg": cfg, "verb": verb, "seed": seed}})
        if cfg["sock"] and cfg["wft"] == 1:
            T = cfg["sock"]
            for gaps in ([[0, 0], [0.8 * T, 0.5 * T], [0.2 * T, 0.7 * T]], [[0, 0.3 * T], [0.5 * T, 0.6 * T], [0.45 * T, 0.45 * T], [0.1 * T, 0.9 * T]]):
                cases.append({"kind": "single", "plan": {"kind": "early_data", "cfg": cfg, "gaps": [[round(a, 3), round(b, 3)] for a, b in gaps],
                                                         "pcmd": "pasv" if gaps[0][1] else "epsv", "seed": seed}})
        for verb in ("RETR", "MLSD", "STOR"):
            for delay in (0.0, cfg["wft"] * 0.5, cfg["wft"] - 0.01):
                cases.append({"kind": "single", "plan": {"kind": "lateconnect", "cfg": cfg, "verb": verb, "delay": round(delay, 4),
                                                         "pcmd": rng.choice(["pasv", "epsv"]), "seed": seed}})
        if cfg["idle"]:
            for delta in (0.01, 0.5, 2.0):
                cases.append({"kind": "single", "plan": {"kind": "chatty", "cfg": cfg, "delta": delta, "rounds": 6,
                                                         "cmds": ["PWD", "SYST", "TYPE I", "NOOP", "CWD /dir", "MLST /f.bin"], "seed": seed}})
    for cfg in ({"idle": 4, "sock": 3, "wft": 1}, {"idle": 4, "sock": None, "wft": 1}, {"idle": None, "sock": 3, "wft": 1}):
        if cfg["idle"]:
            for behind in ((0, 3, 8, 9, 40) if tier == "quick" else (0, 1, 2, 3, 5, 7, 8, 9, 12, 16, 17, 33, 40, 100, 400)):
                cases.append({"kind": "single", "plan": {"kind": "hung_backend", "cfg": cfg, "behind": behind,
                                                         "cmds": ["PWD", "NOOP", "SYST", "MLST /f.bin", "CWD /dir"], "seed": seed}})
        if cfg["wft"]:
            for pair in (["LIST /dir", "LIST /dir"], ["RETR /f.bin", "LIST /dir"], ["MLSD /dir", "RETR /f.bin"], ["STOR /p.bin", "RETR /f.bin"],
                         ["LIST /dir", "STOR /q.bin"]):
                for gap in (0.05, 0.4):
                    cases.append({"kind": "single", "plan": {"kind": "two_transfers_one_data", "cfg": cfg, "pair": pair, "gap": gap,
                                                             "pcmd": ["epsv", "pasv"][len(cases) % 2], "seed": seed}})
        for second in ("RETR /f.bin", "LIST /dir", "STOR /other.bin", "MLSD /", "APPE /f.bin"):
            for pieces, every in ((6, 1.0), (3, 2.5)) if cfg["sock"] else ((6, 1.0), (2, 9.0)):
                if cfg["idle"] and pieces * every + 1 > cfg["idle"]:
                    pieces = 3; every = 1.0
                cases.append({"kind": "single", "plan": {"kind": "second_transfer", "cfg": cfg, "second": second, "gap": 0.3,
                                                         "pieces": pieces, "every": every, "seed": seed}})
        if cfg["idle"]:
            for skw in ({"read_speed_limit": 40}, {"read_speed_limit_per_connection": 40}, {"write_speed_limit": 15}):
                cases.append({"kind": "single", "plan": {"kind": "throttled", "cfg": cfg, "what": "chatty", "rounds": 5, "every": 2.0,
                                                         "server_kwargs": skw, "seed": seed}})
        if cfg["sock"] and not cfg["idle"]:     # (with idle_timeout the silent control channel ends a long transfer, legitimately)
            cases.append({"kind": "single", "plan": {"kind": "throttled", "cfg": cfg, "what": "upload", "size": 24576,
                                                     "server_kwargs": {"read_speed_limit": 2000}, "seed": seed}})
            cases.append({"kind": "single", "plan": {"kind": "throttled", "cfg": cfg, "what": "upload", "size": 24576,
                                                     "server_kwargs": {"read_speed_limit_per_connection": 1500}, "seed": seed}})
            cases.append({"kind": "single", "plan": {"kind": "throttled", "cfg": cfg, "what": "download",
                                                     "server_kwargs": {"write_speed_limit": 2000}, "seed": seed}})
    for idle in (None, 4):
        for sock in (3,):
            for rest in (1, 500, 3000, 10000, 16384, 16500, 40000, 70000, 120000):
                cases.append({"kind": "single", "plan": {"kind": "rest", "cfg": {"idle": idle, "sock": sock, "wft": 1}, "rest": rest, "seed": seed}})
                if rest in (500, 40000, 70000, 120000):
                    cases.append({"kind": "single", "plan": {"kind": "rest", "cfg": {"idle": idle, "sock": sock, "wft": 1}, "rest": rest,
                                                             "then_quit": True, "seed": seed}})
                if idle and rest in (500, 16500, 40000):
                    cases.append({"kind": "single", "plan": {"kind": "rest", "cfg": {"idle": idle, "sock": sock, "wft": 1}, "rest": rest,
                                                             "then_read": True, "seed": seed}})
    # no socket_timeout, only idle_timeout: a peer that floods, says QUIT and never reads is still dropped for its silence
    for rest in (70000, 120000):
        cases.append({"kind": "single", "plan": {"kind": "rest", "cfg": {"idle": 4, "sock": None, "wft": 1}, "rest": rest, "then_quit": True, "seed": seed}})
    # wait_future_timeout=None: the wait for the data connection is not limited
    for idle in (None, 4):
        for sock in (None, 3):
            cfg = {"idle": idle, "sock": sock, "wft": None}
            for verb in ("RETR", "MLSD", "STOR"):
                for delay in ((0.0, 0.4, 3.0) if idle else (0.4, 3.0, 30.0)):
                    cases.append({"kind": "single", "plan": {"kind": "lateconnect", "cfg": cfg, "verb": verb, "delay": delay,
                                                             "pcmd": rng.choice(["pasv", "epsv"]), "seed": seed}})
            for name in (["walk", "retr_pasv"] if tier == "quick" else scripts):
                cases.append({"kind": "enum", "stride": 5 if tier == "quick" else 2, "phase": seed % 2,
                              "plan": {"kind": "stall", "cfg": cfg, "script": name, "action": "stall-noread", "seed": seed}})
    return cases
