"""C18 - the shipped storage back ends are interchangeable."""

import asyncio
import io
import os
import pathlib
import random
import shutil
import tempfile

from .. import boot  # noqa: F401
from .. import world as W
from ..corpus import payload_bytes
from ..rawpeer import RawPeer
from ..runner import sig_of
from ..spyfs import DIR, fs_populate, fs_tree
import aioftp

PROPERTY = "C18"
LEVEL = "exploration"
RULE = ("FTP level: random command sequences (length <= 20) over a small path universe containing files, directories, missing "
        "parents and paths through files - renames onto / into / through files and directories and into the source's own "
        "subtree, REST on new and existing files, MKD through files, RMD of non-empty directories, STOR/APPE onto directories, "
        "DELE of directories, transfers with the data connection before/after the mark - replayed step by step on MemoryPathIO, "
        "PathIO and AsyncPathIO; after each step the reply class (+ mark), transferred bytes, listing names and the complete "
        "tree must agree; a sequence stops at its first divergence.  API level: random operation sequences over {exists, "
        "is_dir, is_file, mkdir(parents, exist_ok), rmdir, unlink, list, stat, open rb/wb/ab/r+b + seek/read/write/close, "
        "rename} on PathIO vs AsyncPathIO in two temp dirs: same result-or-failure, same tree.  Mutations aimed at the root "
        "itself are not generated.  distinct = distinct (command, reply) transcripts; non-trivial = at least one command "
        "failed and at least one succeeded.")
RULE += ("  " + 'Also (round 8): REST n + STOR / APPE followed by plain APPEs (append means the end of the file on every back end).')
RULE += ("  " + 'Also (round 11): a directory of 301 entries on all three back ends; failures that a file system tells apart by error number (ENOENT / ENOTDIR) and memory does not: same reply class everywhere.')
ASSUMPTIONS = ["file-system back ends run in a fresh temp dir per case (removed afterwards)",
               "directory sizes, nlink, modes and times are not compared (they differ by construction)"]
REQUIRED_MONITORS = ["steps_compared", "api_ops_compared"]
ANCHOR_FUNCTIONS = ['pathio.py:MemoryPathIO.rename', 'pathio.py:PathIO.rename', 'pathio.py:AsyncPathIO.rename', 'pathio.py:MemoryPathIO._open']
EXHAUSTIVE = {"quick": False, "thorough": False}

TREE0 = {"/a": DIR, "/a/f1": payload_bytes(300, 1), "/a/sub": DIR, "/a/sub/f2": b"", "/b": DIR, "/top.txt": b"hello world",
         "/e": DIR}
PATHS = ["/a", "/a/f1", "/a/sub", "/a/sub/f2", "/b", "/top.txt", "/e", "/a/new", "/a/f1/under", "/nope/x", "/a/sub/deep/new", "/b/moved",
         "/a/sub/inner", "/e/x", "/top.txt/x/y", "/b/top.txt", "/newdir", "/a/../b/z", "a/sub", "sub/f2", "../top.txt", "f1"]
REST = ["0", "5", "300", "1000"]


def gen_sequence(rng, n):
    seq = [("USER", "anonymous", None), ("EPSV", "", None)]
    for _ in range(n):
        verb = rng.choices(["CWD", "CDUP", "MKD", "RMD", "DELE", "RNFR", "RNTO", "MLST", "REST", "RETR", "STOR", "APPE", "LIST", "MLSD", "PWD", "EPSV"],
                           [3, 1, 4, 4, 4, 6, 7, 3, 3, 4, 5, 4, 2, 3, 1, 1])[0]
        if verb == "RNFR" and rng.random() < 0.8:
            # a pair, so that renames really happen
            src = rng.choice(PATHS)
            dst = rng.choice(PATHS + [src + "/inside", src + "2"])
            seq.append(("RNFR", src, None))
            seq.append(("RNTO", dst, None))
            continue
        if verb in ("CDUP", "PWD", "EPSV"):
            seq.append((verb, "", None))
        elif verb == "REST":
            seq.append((verb, rng.choice(REST), None))
        elif verb in ("RETR", "STOR", "APPE", "LIST", "MLSD"):
            seq.append(("EPSV", "", None))
            if verb in ("STOR", "APPE", "RETR") and rng.random() < 0.3:
                seq.append(("REST", rng.choice(REST), None))
            seq.append((verb, rng.choice(PATHS), rng.choice(["before", "before", "after"])))
        else:
            seq.append((verb, rng.choice(PATHS), None))
    return seq


MANY = {"/many": DIR}
MANY.update({f"/many/entry-{i:03d}": (b"x" if i % 3 else DIR) for i in range(300)})


async def replay(net, hyg, backend, seq, seed, big=False):
    w = W.World(net, tree=dict(TREE0, **MANY) if big else TREE0, backend=backend)
    await w.start()
    out = []
    try:
        p = RawPeer(net, 2121)
        await p.connect()
        port = None
        rng = random.Random(seed)
        for i, (verb, arg, data) in enumerate(seq):
            line = verb + ((" " + arg) if arg else "")
            payload = payload_bytes(rng.choice([0, 7, 400]), i) if verb in ("STOR", "APPE") else b""
            conn = None
            if data == "before" and port is not None:
                try:
                    conn = await p.open_data(port)
                except OSError:
                    conn = None
            r1 = await p.cmd(line)
            marks = 0
            final = r1
            got = None
            if r1 not in (None, "EOF") and r1.code.startswith("1"):
                marks = 1
                if data == "after" and port is not None:
                    try:
                        conn = await p.open_data(port)
                    except OSError:
                        conn = None
                if conn is not None:
                    dr, dw = conn
                    if verb in ("STOR", "APPE"):
                        try:
                            dw.write(payload)
                            await asyncio.wait_for(dw.drain(), 30)
                        except (ConnectionError, asyncio.TimeoutError):
                            pass
                        dw.close()
                    else:
                        got, st = await p.read_data(dr, wait=20)
                        dw.close()
                    conn = None
                final = await p.read_reply()
            elif conn is not None:
                conn[1].close()
            code = final.code if final not in (None, "EOF") else str(final)
            if verb == "EPSV" and code == "229":
                port = p.parse_epsv(final)
            rec = {"cmd": line, "marks": marks, "cls": code[0] if code[0].isdigit() else code, "code": code}
            if got is not None:
                if verb in ("LIST", "MLSD"):
                    lines = [x for x in got.decode("utf-8", "replace").split("\r\n") if x]
                    rec["names"] = sorted((x.partition(" ")[2] if verb == "MLSD" else x.split(None, 8)[-1]) for x in lines)
                else:
                    rec["data"] = got.hex()
            if verb == "MLST" and code == "250":
                body = " ".join(final.lines)
                rec["type"] = "dir" if "Type=dir;" in body else ("file" if "Type=file;" in body else "?")
                if rec["type"] == "file":
                    rec["size"] = body.split("Size=")[1].split(";")[0] if "Size=" in body else None
            if verb == "PWD":
                rec["pwd"] = " ".join(final.lines)
            rec["tree"] = {k: (v if v == DIR else v.hex()) for k, v in w.tree().items()}
            out.append(rec)
            if final in (None, "EOF"):
                break
        p.cut("fin")
        await w.stop()
        return out
    finally:
        w.cleanup()


def ftp_level(plan):
    rng = random.Random(plan["seed"])
    seq = [tuple(x) for x in plan["seq"]] if plan.get("seq") else gen_sequence(rng, plan["length"])
    runs = {}
    for backend in plan["backends"]:
        async def main(net, hyg, backend=backend):
            return await replay(net, hyg, backend, seq, plan["seed"], big=bool(plan.get("big")))
        res, info = W.run(main, seed=plan["seed"], net_kwargs=dict(latency=0.0005))
        if res is None:
            return W.failed(info, f"backend {backend} sequence {seq}")
        runs[backend] = res
    viol = []
    n = 0
    ref = plan["backends"][0]
    L = min(len(r) for r in runs.values())
    for i in range(L):
        n += 1
        recs = {b: runs[b][i] for b in runs}
        base = recs[ref]
        for b, r in recs.items():
            if b == ref:
                continue
            for field in ("marks", "cls", "names", "data", "type", "size", "pwd", "tree"):
                if base.get(field) != r.get(field):
                    verb = base["cmd"].split(" ")[0]
                    if field == "tree":
                        keys = sorted(set(base["tree"]) ^ set(r["tree"])) or [k for k in base["tree"] if base["tree"][k] != r["tree"].get(k)]
                        detail = f"trees differ at {keys[:4]}"
                    else:
                        detail = f"{field}: {ref}={str(base.get(field))[:80]} {b}={str(r.get(field))[:80]}"
                    hist = [x["cmd"] + "->" + x["code"] for x in runs[ref][max(0, i - 5):i + 1]]
                    viol.append({"key": f"backends-diverge:{verb}:{field}:{ref}-vs-{b}",
                                 "msg": f"step {i} {base['cmd']!r}: {detail}; {ref} replied {base['code']}, {b} replied {r['code']}; history {hist}"})
                    break
            if viol:
                break
        if viol:
            break
    if not viol and len({len(r) for r in runs.values()}) > 1:
        viol.append({"key": "backends-diverge:session-length", "msg": f"sessions ended at different steps: { {b: len(r) for b, r in runs.items()} }"})
    codes = [x["code"] for x in runs[ref]]
    nontrivial = any(c[0] in "45" for c in codes[2:]) and any(c[0] == "2" for c in codes[2:])
    return {"violations": viol, "monitors": {"steps_compared": n}, "sig": sig_of([(x["cmd"], x["code"]) for x in runs[ref]]),
            "nontrivial": nontrivial, "sample": {"backends": plan["backends"], "transcript": [[x["cmd"], x["code"]] for x in runs[ref]][:25]}}


# ----------------------------------------------------------------------------- API level

OPS = ["exists", "is_dir", "is_file", "mkdir", "mkdir_p", "mkdir_ok", "rmdir", "unlink", "list", "stat", "rename", "write_wb", "write_ab",
       "write_rplus", "read_rb", "read_seek", "write_await", "read_await"]
APATHS = ["a", "a/f1", "a/sub", "a/sub/f2", "b", "top.txt", "e", "a/new", "a/f1/under", "nope/x", "b/moved", "a/sub/inner", "new"]


async def api_op(pio, base, op, p, q, data, off):
    path = base / p
    try:
        if op in ("exists", "is_dir", "is_file"):
            return ("ok", await getattr(pio, op)(path))
        if op == "mkdir":
            return ("ok", await pio.mkdir(path))
        if op == "mkdir_p":
            return ("ok", await pio.mkdir(path, parents=True))
        if op == "mkdir_ok":
            return ("ok", await pio.mkdir(path, parents=True, exist_ok=True))
        if op == "rmdir":
            return ("ok", await pio.rmdir(path))
        if op == "unlink":
            return ("ok", await pio.unlink(path))
        if op == "list":
            return ("ok", sorted(x.name for x in await pio.list(path)))
        if op == "stat":
            st = await pio.stat(path)
            import stat as S
            return ("ok", ("dir" if S.S_ISDIR(st.st_mode) else "file", None if S.S_ISDIR(st.st_mode) else st.st_size))
        if op == "rename":
            return ("ok", await pio.rename(path, base / q) and None)
        if op == "write_await":
            # the documented non-context form: `file = await path_io.open(...)`, explicit close()
            f = await pio.open(path, mode="ab" if off else "wb")
            try:
                await f.write(data)
                await f.write(data[:2])
            finally:
                await f.close()
            return ("ok", None)
        if op == "read_await":
            f = await pio.open(path, mode="rb")
            try:
                d1 = await f.read(off or -1)
                d2 = await f.read(3)
            finally:
                await f.close()
            return ("ok", (d1 + b"|" + d2).hex())
        if op.startswith("write_"):
            mode = {"write_wb": "wb", "write_ab": "ab", "write_rplus": "r+b"}[op]
            async with pio.open(path, mode=mode) as f:
                if mode == "r+b":
                    await f.seek(off)
                await f.write(data)
            return ("ok", None)
        if op == "read_rb":
            async with pio.open(path, mode="rb") as f:
                out = b""
                async for blk in f.iter_by_block(7):
                    out += blk
            return ("ok", out.hex())
        if op == "read_seek":
            async with pio.open(path, mode="rb") as f:
                await f.seek(off)
                d1 = await f.read(5)
                await f.seek(-2 if off > 2 else 0, io.SEEK_CUR if off > 2 else io.SEEK_SET)
                d2 = await f.read(4)
            return ("ok", (d1 + b"|" + d2).hex())
    except aioftp.PathIOError as e:
        return ("fail", type(e.reason[1]).__name__ if e.reason else None)
    raise ValueError(op)


def api_level(plan):
    rng = random.Random(plan["seed"])
    ops = [(rng.choice(OPS), rng.choice(APATHS), rng.choice(APATHS), payload_bytes(rng.choice([0, 3, 50]), rng.randrange(99)),
            rng.choice([0, 2, 5, 400])) for _ in range(plan["length"])]
    d1 = tempfile.mkdtemp(prefix="aioftp-verif-c18a-")
    d2 = tempfile.mkdtemp(prefix="aioftp-verif-c18b-")
    viol = []
    n = 0
    try:
        spec = {k: v for k, v in TREE0.items()}
        fs_populate(d1, spec)
        fs_populate(d2, spec)

        async def main():
            nonlocal n
            a = aioftp.PathIO(timeout=None)
            b = aioftp.AsyncPathIO(timeout=None)
            for i, (op, p, q, data, off) in enumerate(ops):
                ra = await api_op(a, pathlib.Path(d1), op, p, q, data, off)
                rb = await api_op(b, pathlib.Path(d2), op, p, q, data, off)
                n += 1
                ta, tb = fs_tree(d1), fs_tree(d2)
                if ra[0] != rb[0] or (ra[0] == "ok" and ra[1] != rb[1]) or ta != tb:
                    what = "outcome" if ra != rb else "tree"
                    viol.append({"key": f"fs-backends-diverge:{op}:{what}",
                                 "msg": f"op {i} {op}({p!r}, {q!r}, off={off}): PathIO {ra} AsyncPathIO {rb}; trees equal: {ta == tb}; "
                                        f"history {[o[0] + ' ' + o[1] for o in ops[max(0, i - 4):i]]}"})
                    return
        loop = asyncio.new_event_loop()
        try:
            loop.run_until_complete(main())
            loop.run_until_complete(loop.shutdown_default_executor())
        finally:
            loop.close()
    finally:
        shutil.rmtree(d1, ignore_errors=True)
        shutil.rmtree(d2, ignore_errors=True)
    return {"violations": viol, "monitors": {"api_ops_compared": n}, "sig": sig_of(["api", plan["seed"]]), "nontrivial": True,
            "sample": {"api_ops": [[o[0], o[1]] for o in ops[:12]]}}


def run_case(case):
    out = {"violations": [], "monitors": {}, "sigs": []}
    for plan in case["plans"]:
        res = ftp_level(plan) if plan["kind"] == "ftp" else api_level(plan)
        if res.get("inconclusive") or res.get("hang"):
            if res.get("inconclusive"):
                return res
        for k, v in res["monitors"].items():
            out["monitors"][k] = out["monitors"].get(k, 0) + v
        if res["nontrivial"]:
            out["sigs"].append(res["sig"])
        for v in res["violations"]:
            v["replay_case"] = {"plans": [plan]}
            out["violations"].append(v)
        if plan["kind"] == "ftp":
            out.setdefault("sample", res.get("sample"))
    return out


def gen_cases(tier, seed):
    plans = []
    n = 240 if tier == "quick" else 30000
    for i in range(n):
        backends = ["memory", "pathio", "async"] if i % 4 == 0 else ["memory", "pathio"]
        plans.append({"kind": "ftp", "seed": seed * 100003 + i, "length": 16, "backends": backends})
    U, E = ("USER", "anonymous", None), ("EPSV", "", None)
    targeted = [
        [U, ("RNFR", "/e", None), ("RMD", "/e", None), ("RNTO", "/e", None), ("MLST", "/e", None)],
        [U, ("RNFR", "/top.txt", None), ("DELE", "/top.txt", None), ("RNTO", "/top.txt", None), ("MLST", "/top.txt", None)],
        [U, ("RNFR", "/top.txt", None), ("RNTO", "/a/f1/under", None), ("MLST", "/top.txt", None)],
        [U, ("RNFR", "/a", None), ("RNTO", "/a/sub/inside", None), ("MLST", "/a/f1", None)],
        [U, ("RNFR", "/a/sub", None), ("RNTO", "/a/sub", None), ("RNFR", "/a/f1", None), ("RNTO", "/a/f1", None)],
        [U, ("RNFR", "/a", None), ("RNTO", "/b", None), ("RNFR", "/a/f1", None), ("RNTO", "/top.txt", None)],
        [U, E, ("REST", "5", None), ("STOR", "/a/new", "before"), E, ("REST", "5", None), ("APPE", "/a/new2", "before")],
        [U, E, ("REST", "1000", None), ("STOR", "/top.txt", "before"), E, ("RETR", "/top.txt", "before")],
        [U, E, ("STOR", "/a", "before"), E, ("APPE", "/a/sub", "after"), E, ("RETR", "/a", "before")],
        [U, ("MKD", "/a/f1/under", None), ("MKD", "/top.txt/x/y", None), ("MKD", "/nope/x", None), ("RMD", "/a", None), ("DELE", "/a/sub", None)],
        [U, ("RMD", "/e", None), ("RMD", "/e", None), ("MKD", "/e/x", None), ("MKD", "/e", None), ("MKD", "/e", None)],
        [U, E, ("MLSD", "/a/f1", "before"), E, ("LIST", "/top.txt", "after"), E, ("MLSD", "/e", "before")],
        # a restarted upload leaves the file's write position inside the file: what comes next appends at the end all the same
        [U, E, ("REST", "2", None), ("STOR", "/top.txt", "before"), E, ("APPE", "/top.txt", "before"), E, ("APPE", "/top.txt", "after"),
         E, ("RETR", "/top.txt", "before")],
        [U, E, ("REST", "1", None), ("APPE", "/a/f1", "before"), E, ("APPE", "/a/f1", "before"), E, ("REST", "3", None), ("RETR", "/a/f1", "before"),
         E, ("STOR", "/a/f1", "before"), E, ("RETR", "/a/f1", "before")],
    ]
    for j, seq in enumerate(targeted):
        plans.append({"kind": "ftp", "seed": seed + j, "length": 0, "seq": [list(x) for x in seq], "backends": ["memory", "pathio", "async"]})
    # a directory of 301 entries (more than any chunk a back end may read a directory in)
    for seq in ([U, E, ("MLSD", "/many", "before"), E, ("LIST", "/many", "after"), ("RMD", "/many/entry-000", None), E, ("MLSD", "/many", "before")],
                [U, ("CWD", "/many", None), E, ("LIST", "", "before"), ("DELE", "entry-001", None), E, ("MLSD", ".", "after")]):
        plans.append({"kind": "ftp", "seed": seed, "length": 0, "seq": [list(x) for x in seq], "backends": ["memory", "pathio", "async"], "big": True})
    # failures of one kind, told apart by the operating system's error number on a real file system and by nothing in memory: the
    # reply class is the same everywhere
    for seq in ([U, ("RNFR", "/a/f1", None), ("RNTO", "/nodir/b", None), ("MKD", "/top.txt/sub", None), ("RNFR", "/a/f1", None), ("DELE", "/a/f1", None),
                 ("RNTO", "/b/z", None)],
                [U, E, ("REST", "3", None), ("STOR", "/missing.bin", "before"), E, ("REST", "3", None), ("APPE", "/missing2.bin", "before"),
                 ("MKD", "/a/f1/x", None), ("RMD", "/a/f1", None), ("DELE", "/a", None)]):
        plans.append({"kind": "ftp", "seed": seed, "length": 0, "seq": [list(x) for x in seq], "backends": ["memory", "pathio", "async"]})
    for i in range(60 if tier == "quick" else 8000):
        plans.append({"kind": "api", "seed": seed * 7777 + i, "length": 40})
    per = 6
    return [{"plans": plans[i:i + per]} for i in range(0, len(plans), per)]
