"""C05 - the command dispatcher conforms to a sequential FTP session model."""

import asyncio
import itertools
import random
import re

from .. import boot  # noqa: F401
from .. import world as W
from ..corpus import payload_bytes
from ..ftpmodel import DIR, Model, norm
from ..rawpeer import RawPeer
from ..runner import sig_of
import aioftp

PROPERTY = "C05"
LEVEL = "exploration"
RULE = ("command sequences sent one at a time by a raw peer: (a) model-guided random sequences of length <= 30 over all "
        "25 verbs + unknown verbs with arguments drawn from existing/missing/file/dir paths and their aliases, REST "
        "arguments (ASCII, signed, blank-padded, non-ASCII digits, huge), TYPE/PROT/EPSV arguments, data connection made "
        "before / after the mark / never; (b) all sequences of length <= 2 (quick) / 3 (thorough) over a fixed alphabet "
        "after a login prefix.  After every command: number of marks, final code against the model's accepted set, "
        "session alive, silence (nothing unsolicited), spy tree == model tree, PWD/MLST/listing/download content.  "
        "distinct = distinct (command, reply) transcripts; non-trivial = at least 2 commands after login.")
RULE += ("  " + 'Also: REST arguments of thousands of digits; the random, pair and targeted sequences under non-default server configurations (wait_future_timeout=None, connection limits of 1, all time-outs set).')
RULE += ("  " + 'Also: a command (PWD, TYPE, CWD, CDUP, MLST, SYST, NOOP) between the 1xx mark and the data connection, modelled sequentially; accounts whose connection limit is held by other sessions.')
RULE += ("  " + 'Also (round 7): a transfer command refused without a mark leaves its prepared data connection open and the next transfer command uses it (no new PASV / EPSV): the restart offset was for the refused command only (the model lets it lapse with every command but REST).')
RULE += ("  " + 'Also (round 9): the peer ends the data connection of a transfer itself (FIN or RST after 0..150000 bytes of a 2 MB download, a 2500-entry listing, an upload) and carries on: one completion reply (4xx for the download), silence, PWD, next transfer through the same or a new listener, tree unchanged (monitor data_cut).')
RULE += ("  " + "Also (round 10): see round 9 data_cut; C13's retry_after_rest covers the restart offset after a failed (451) transfer command.")
ASSUMPTIONS = [
    "harness/ftpmodel.py is the specification; where it returns a set of outcomes any member is accepted",
    "the peer re-issues PASV/EPSV before a transfer whenever its previous data connection was not consumed by a "
    "completed transfer (as every FTP client does)",
    "mutations aimed at the virtual root itself are not generated",
]
REQUIRED_MONITORS = ["reply_vs_model", "tree_vs_model", "silence", "alive"]
ANCHOR_FUNCTIONS = ['server.py:Server.dispatcher', 'server.py:Server.rest', 'server.py:Server.rnto', 'server.py:Server.write_response']
EXHAUSTIVE = {"quick": False, "thorough": False}
WALL_BUDGET = {"quick": 900, "thorough": 7200}

TREE0 = {"/a": DIR, "/a/f1": payload_bytes(300, 1), "/a/sub": DIR, "/a/sub/f2": b"", "/b": DIR, "/top.txt": b"hello world",
         "/big": payload_bytes(20000, 2)}
USERS_A = {None: None, "alice": "secret", "bob": None}
USERS_B = {"alice": "secret", "bob": None}

REST_ARGS = ["0", "5", "17", "300", "100000", "-1", "+3", " 4", "abc", "", "²", "٣", "1e3", "0x10", "４",
             "99999999999999999999", "4 5", "①", "9" * 4300, "1" + "0" * 5000]
UNKNOWN = ["NOOP", "FEAT", "STAT", "HELP", "SITE CHMOD 777 x", "XPWD", "", "ACCT x", "PORT 127,0,0,1,4,1", "OPTS UTF8 ON",
           "SIZE /top.txt", "MDTM /top.txt", "ALLO 10", "MODE S", "STRU F"]


def aioftp_users(spec, base, limit=None):
    out = []
    for login, pw in spec.items():
        out.append(aioftp.User(login, pw, base_path=base, **({"maximum_connections": limit} if limit else {})))
    return out


class Gen:
    """model-guided random command generator"""

    def __init__(self, rng):
        self.rng = rng
        self.need_passive = True   # the peer must (re)issue PASV/EPSV before the next transfer

    def path(self, m, kind=None):
        rng = self.rng
        files = [p for p in m.tree if m.tree[p] != DIR]
        dirs = [p for p in m.tree if m.tree[p] == DIR]
        kind = kind or rng.choice(["file", "dir", "missing", "deepmissing", "throughfile", "any"])
        if kind == "file" and files:
            p = rng.choice(files)
        elif kind == "dir" and dirs:
            p = rng.choice(dirs)
        elif kind == "missing":
            p = (rng.choice(dirs + ["/"]).rstrip("/")) + "/" + rng.choice(["new", "n2", "x.bin"])
        elif kind == "deepmissing":
            p = "/nope/deeper/" + rng.choice(["x", "y"])
        elif kind == "throughfile" and files:
            p = rng.choice(files) + "/under"
        else:
            p = rng.choice(list(m.tree) + ["/"])
        # alias the spelling
        r = rng.random()
        if r < 0.15 and p != "/":
            parts = p.strip("/").split("/")
            i = rng.randrange(len(parts) + 1)
            parts[i:i] = ["zz", ".."]
            p = "/" + "/".join(parts)
        elif r < 0.25:
            p = "/" + p
        elif r < 0.35 and p != "/":
            p = p.replace("/", "/./", 1)
        elif r < 0.5:
            # relative to cwd when possible
            cwd = m.cwd.rstrip("/")
            if p.startswith(cwd + "/"):
                p = p[len(cwd) + 1:]
            elif cwd:
                p = "../" * cwd.count("/") + p.lstrip("/")
        elif r < 0.55 and p != "/":
            p = p + "/"
        return p

    def next(self, m):
        rng = self.rng
        if not m.logged and rng.random() < 0.6:
            r = rng.random()
            if m.user is not None and not m.logged and r < 0.6:
                return ("PASS", rng.choice(["secret", "wrong", "secret", ""]), None, "pass")
            return ("USER", rng.choice(["anonymous", "alice", "bob", "nobody", "alice"]), None, "user")
        verb = rng.choices(
            ["PWD", "CWD", "CDUP", "MKD", "RMD", "DELE", "MLST", "RNFR", "RNTO", "TYPE", "PBSZ", "PROT", "SYST", "PASV",
             "EPSV", "REST", "RETR", "STOR", "APPE", "LIST", "MLSD", "ABOR", "UNKNOWN", "USER", "PASS", "QUIT"],
            [6, 6, 3, 5, 4, 4, 5, 5, 6, 2, 1, 2, 1, 3, 4, 6, 9, 8, 5, 4, 4, 2, 4, 2, 1, 0.6])[0]
        if verb == "UNKNOWN":
            line = rng.choice(UNKNOWN)
            v, _, a = line.partition(" ")
            return (v, a, None, "unknown")
        if verb == "USER":
            return ("USER", rng.choice(["anonymous", "alice", "bob", "nobody"]), None, "relogin")
        if verb == "PASS":
            return ("PASS", rng.choice(["secret", "x"]), None, "pass")
        if verb in ("PWD", "CDUP", "SYST", "ABOR", "QUIT", "PASV"):
            if verb == "PASV":
                self.need_passive = False
            return (verb, "", None, "plain")
        if verb == "PBSZ":
            return (verb, "0", None, "plain")
        if verb == "TYPE":
            a = rng.choice(["I", "A", "E", "L 8", "i", ""])
            return (verb, a, None, "type:" + ("ok" if a in ("I", "A") else "bad"))
        if verb == "PROT":
            a = rng.choice(["P", "C", ""])
            return (verb, a, None, "prot:" + ("ok" if a == "P" else "bad"))
        if verb == "EPSV":
            a = rng.choice(["", "", "", "1", "ALL"])
            if not a:
                self.need_passive = False
            return (verb, a, None, "epsv:" + ("plain" if not a else "arg"))
        if verb == "REST":
            a = rng.choice(REST_ARGS)
            cls = "ascii" if (a.isascii() and a.isdigit()) else ("nonascii-digit" if a.isdigit() else "malformed")
            return (verb, a, None, "rest:" + cls)
        if verb in ("CWD", "MLST", "RNFR"):
            return (verb, self.path(m), None, "path")
        if verb == "MKD":
            return (verb, self.path(m, rng.choice(["missing", "deepmissing", "dir", "throughfile", "file"])), None, "path")
        if verb == "RMD":
            p = self.path(m, rng.choice(["dir", "dir", "missing", "file"]))
            if norm(m.cwd, p) == "/":
                p = "/a/nothing"
            return (verb, p, None, "path")
        if verb == "DELE":
            return (verb, self.path(m, rng.choice(["file", "file", "missing", "dir"])), None, "path")
        if verb == "RNTO":
            p = self.path(m, rng.choice(["missing", "missing", "file", "dir"]))
            return (verb, p, None, "path")
        # transfers
        if self.need_passive and m.logged and rng.random() < 0.85:
            self.need_passive = False
            return (rng.choice(["PASV", "EPSV"]), "", None, "plain")
        data = rng.choices(["before", "after", "never"], [6, 3, 1])[0]
        if verb in ("STOR", "APPE") and max(m.rest, m.rest_maybe or 0) >= 2 ** 62:
            verb = "RETR"
        if verb == "RETR":
            p = self.path(m, rng.choice(["file", "file", "file", "missing", "dir"]))
        elif verb in ("LIST", "MLSD"):
            p = self.path(m, rng.choice(["dir", "dir", "file", "missing"]))
        else:
            p = self.path(m, rng.choice(["missing", "file", "file", "deepmissing", "dir", "throughfile"]))
            if norm(m.cwd, p) == "/":
                p = "/a/up"
        return (verb, p, data, "xfer")


async def run_sequence(net, hyg, plan):
    users = USERS_A if plan.get("users", "A") == "A" else USERS_B
    backend = plan.get("backend", "memory")
    cfg = plan.get("cfg")       # non-default server configuration that must not change what a single session sees
    skw = {}
    if cfg == "wft-none":
        skw["wait_future_timeout"] = None       # unlimited wait for the data connection ("never" is not generated with it)
    elif cfg == "limits":
        skw["maximum_connections"] = 1
    elif cfg == "limits-held":
        skw["maximum_connections"] = 3
    elif cfg == "timeouts":
        skw.update(idle_timeout=50, socket_timeout=40, path_timeout=30, wait_future_timeout=2.5)
    w = W.World(net, tree=TREE0, backend=backend,
                users=lambda base: aioftp_users(users, base, limit=1 if cfg in ("limits", "limits-held") else None),
                block_size=plan.get("block_size", 8192), **skw)
    await w.start()
    viol = []
    mon = {"reply_vs_model": 0, "tree_vs_model": 0, "silence": 0, "alive": 0, "content": 0}
    transcript = []
    try:
        m = Model(users, TREE0)
        holders = []
        if cfg == "limits-held":
            # every account with a password is in use by another session (limit 1): USER for it is refused with 530
            m.held = set()
            for login, pw in users.items():
                if login is not None and pw is not None:
                    hp = RawPeer(net, 2121, name="holder")
                    await hp.connect()
                    await hp.cmd("USER " + login)
                    await hp.cmd("PASS " + pw)
                    holders.append(hp)
                    m.held.add(login)
        p = RawPeer(net, 2121)
        r = await p.connect()
        if r in (None, "EOF") or r.code != "220":
            return {"inconclusive": f"no greeting: {r}"}
        rng = random.Random(plan.get("seed", 0))
        gen = Gen(rng)
        brng = random.Random(plan.get("seed", 0) * 31 + 7)
        fixed = plan.get("commands")
        n = len(fixed) if fixed is not None else plan.get("length", 20)
        port = None
        have_data = None       # (reader, writer) the peer has open and unconsumed
        stale = False          # the server may hold a data connection the peer already closed
        kept = None            # a data connection prepared for a transfer command that was refused without a mark, still open

        def bad(sym, verb, cls, msg):
            viol.append({"key": f"{sym}:{verb}:{cls}", "msg": msg})

        for i in range(n):
            if not m.alive:
                break
            if fixed is not None:
                verb, arg, data, cls = fixed[i]
            else:
                verb, arg, data, cls = gen.next(m)
            is_xfer = verb in ("RETR", "STOR", "APPE", "LIST", "MLSD")
            if cfg == "wft-none" and data == "never":
                data = "after"
            if kept is not None and not (is_xfer and data == "before" and m.logged and m.passive):
                # the data connection kept from a refused transfer command is of no use for this command: drop it
                kept[1].close()
                kept = None
                stale = True
            if is_xfer and stale and m.passive and m.logged:
                # be a normal client: renew the passive state before the next transfer
                for pv in ("EPSV",):
                    e0 = m.step(pv, "")
                    r0 = await p.cmd(pv)
                    transcript.append([pv, "", r0.code if r0 not in (None, "EOF") else str(r0)])
                    if r0 in (None, "EOF") or not e0.accepts(r0.code):
                        bad("wrong-reply", pv, "renew", f"{pv} -> {r0}")
                        m.alive = False
                        break
                    port = p.parse_epsv(r0)
                    stale = False
                if not m.alive:
                    break
            payload = payload_bytes(rng.choice([0, 1, 11, 300, 9000]) if fixed is None else 37, i) if verb in ("STOR", "APPE") else b""
            line = verb + ((" " + arg) if arg != "" else "")
            rest_before = m.rest
            e = m.step(verb, arg, data or "before", payload)
            where = f"command #{i} {line!r} (class {cls}, data={data}, after {[t[0] + ' ' + t[1] for t in transcript[-4:]]})"
            mon["reply_vs_model"] += 1
            conn = None
            if is_xfer and data == "before" and port is not None and m.logged and m.passive:
                if kept is not None:
                    # the data connection a refused transfer command left unused serves this one (no new PASV / EPSV in between)
                    conn, kept = kept, None
                    mon["reused_unused_data_connection"] = mon.get("reused_unused_data_connection", 0) + 1
                else:
                    try:
                        conn = await p.open_data(port)
                    except OSError:
                        conn = None
            r1 = await p.cmd(line)
            marks = 0
            final = r1
            got_data = None
            dstatus = None
            if r1 not in (None, "EOF") and r1.code.startswith("1"):
                marks = 1
                if is_xfer and data == "after" and port is not None and brng.random() < 0.4:
                    # another command between the mark and the data connection: it is answered at once, and the transfer
                    # stays the one that was announced (path, restart offset, user as they were when it was accepted)
                    bverb, barg = brng.choice([("PWD", ""), ("TYPE", "I"), ("CWD", "/a"), ("CWD", ".."), ("SYST", ""), ("NOOP", ""),
                                               ("MLST", "/top.txt"), ("CDUP", "")])
                    eb = m.step(bverb, barg)
                    rb = await p.cmd(bverb + ((" " + barg) if barg else ""))
                    bcode = rb.code if rb not in (None, "EOF") else str(rb)
                    transcript.append([bverb, barg, "between:" + bcode])
                    mon["between_mark_and_data"] = mon.get("between_mark_and_data", 0) + 1
                    if rb in (None, "EOF") or not eb.accepts(bcode):
                        bad("wrong-reply", bverb, "between", f"{where}: {bverb} {barg!r} sent between the mark and the data connection "
                                                             f"answered {bcode}, model accepts {eb}")
                        break
                    m.observe(eb, bcode)
                if is_xfer and data == "after" and port is not None:
                    try:
                        conn = await p.open_data(port)
                    except OSError:
                        conn = None
                if conn is not None:
                    dr, dw = conn
                    if verb in ("STOR", "APPE"):
                        try:
                            dw.write(payload)
                            await asyncio.wait_for(dw.drain(), 30)
                            dstatus = "sent"
                        except (ConnectionError, asyncio.TimeoutError):
                            dstatus = "send-failed"
                        dw.close()
                    else:
                        got_data, dstatus = await p.read_data(dr, wait=20)
                        dw.close()
                    conn = None
                final = await p.read_reply()
            elif conn is not None:
                # refused without a mark: keep the prepared data connection for the next transfer command (every other time),
                # or drop it (the server may still hold its end)
                if brng.random() < 0.5 and final not in (None, "EOF"):
                    kept = conn
                else:
                    conn[1].close()
                    stale = True
                conn = None
            code = final.code if final not in (None, "EOF") else str(final)
            transcript.append([verb, arg, ("1xx+" if marks else "") + code])
            if final in (None, "EOF"):
                sym = "session-dropped" if final == "EOF" else "no-reply"
                bad(sym, verb, cls, f"{where}: expected {e}, got {final}")
                break
            if marks != e.marks:
                bad("marks", verb, cls, f"{where}: {marks} preliminary replies, model expects {e.marks}; final {code}; {e}")
            if not e.accepts(code):
                bad("wrong-reply", verb, cls, f"{where}: replied {code}, model accepts {e}")
                break
            m.observe(e, code)
            if verb in ("PASV", "EPSV") and code in ("227", "229"):
                port = p.parse_pasv(final)[1] if code == "227" else p.parse_epsv(final)
                stale = False
            # content checks
            if getattr(e, "pwd", None) is not None:
                mon["content"] += 1
                mt = re.search(r'"(.*)"', " ".join(final.lines))
                if not mt or mt.group(1) != e.pwd:
                    bad("wrong-pwd", verb, cls, f"{where}: PWD says {final.lines}, model cwd {e.pwd}")
            if getattr(e, "mlst", None) is not None and code == "250":
                mon["content"] += 1
                typ, size, name = e.mlst
                body = " ".join(final.lines)
                ok = f"Type={typ};" in body and (size is None or f"Size={size};" in body)
                if not ok:
                    bad("wrong-mlst", verb, cls, f"{where}: MLST says {final.lines}, model {e.mlst}")
            if e.data is not None and marks and code.startswith("2"):
                mon["content"] += 1
                if got_data != e.data and got_data not in getattr(e, "data_alt", []):
                    bad("wrong-download", verb, "rest=%s" % ("0" if not rest_before else "n"),
                        f"{where}: downloaded {len(got_data or b'')} bytes, model expects {len(e.data)} "
                        f"(restart offset in force {rest_before}); first bytes {bytes((got_data or b'')[:16])!r} vs {e.data[:16]!r}")
            if e.names is not None and marks and code.startswith("2"):
                mon["content"] += 1
                lines = [x for x in (got_data or b"").decode("utf-8", "replace").split("\r\n") if x]
                names = sorted(x.partition(" ")[2] for x in lines) if e.listing == "MLSD" else None
                if e.listing == "MLSD" and names != sorted(e.names):
                    bad("wrong-listing", verb, cls, f"{where}: listed {names}, model {e.names}")
                elif e.listing == "LIST" and len(lines) != len(e.names):
                    bad("wrong-listing", verb, cls, f"{where}: {len(lines)} lines, model has {len(e.names)} entries")
            # session must be alive unless the reply announces the end
            mon["alive"] += 1
            if not e.closes and code != "421":
                mon["silence"] += 1
                quiet, buf = await p.silent()
                if not quiet:
                    bad("unsolicited-reply", verb, cls, f"{where}: extra bytes after the reply: {buf[:100]!r}")
                    break
                if p.reader.at_eof():
                    bad("session-dropped-after-reply", verb, cls, f"{where}: replied {code} and then closed the session")
                    break
            # tree
            mon["tree_vs_model"] += 1
            t = w.tree()
            if t != m.tree and getattr(e, "tree_alt", None):
                path_, alts = e.tree_alt
                for alt_ in alts:
                    if alt_ is None:
                        m.tree.pop(path_, None)
                    else:
                        m.tree[path_] = alt_
                    if t == m.tree:
                        break
            if t != m.tree:
                diff = sorted(set(t) ^ set(m.tree)) or [k for k in t if t[k] != m.tree.get(k)]
                bad("tree-differs", verb, cls, f"{where} -> {code}: back-end tree differs from the model at {diff[:4]}")
                break
        p.cut("fin")
        for hp in holders:
            hp.cut("fin")
        await w.stop()
        return {"violations": viol, "monitors": mon, "sig": sig_of(transcript), "nontrivial": len(transcript) >= 3,
                "transcript": transcript}
    finally:
        w.cleanup()


TREE_CUT = dict(TREE0, **{"/huge.bin": payload_bytes(2000000, 5), "/many": DIR})
TREE_CUT.update({f"/many/entry-{i:04d}-{'x' * 40}": b"" for i in range(2500)})


async def run_datacut(net, hyg, plan):
    """The peer ends the data connection of a transfer by itself (closes or resets it after some bytes, the usual way a client
    stops a download) and carries on: the transfer command still gets exactly one completion reply, nothing else arrives, the
    session goes on (PWD, a new transfer through the same or a new listener), the tree is as it was."""
    w = W.World(net, tree=TREE_CUT, backend=plan.get("backend", "memory"),
                users=lambda base: aioftp_users(USERS_A, base), block_size=plan.get("block_size", 8192), **(plan.get("server_kwargs") or {}))
    await w.start()
    viol = []
    mon = {"reply_vs_model": 0, "tree_vs_model": 0, "silence": 0, "alive": 0, "content": 0, "data_cut": 0}
    transcript = []
    verb, how, after = plan["verb"], plan["how"], plan["after"]
    where = f"{verb}, the peer {'resets' if how == 'rst' else 'closes'} its data connection after {after} bytes ({plan.get('pcmd', 'EPSV')}, {plan.get('backend', 'memory')})"

    def bad(sym, msg):
        viol.append({"key": f"{sym}:data-cut:{verb}:{how}", "msg": f"{where}: {msg}"})
    try:
        p = RawPeer(net, 2121)
        await p.connect()
        await p.cmd("USER anonymous")
        await p.cmd("TYPE I")
        pcmd = plan.get("pcmd", "EPSV")
        r = await p.cmd(pcmd)
        port = p.parse_epsv(r) if pcmd == "EPSV" else p.parse_pasv(r)[1]
        tree_before = w.tree()
        dr, dw = await p.open_data(port)
        line = {"RETR": "RETR /huge.bin", "LIST": "LIST /many", "MLSD": "MLSD /many", "STOR": "STOR /up.bin", "APPE": "APPE /top.txt"}[verb]
        r1 = await p.cmd(line)
        mon["reply_vs_model"] += 1
        if r1 in (None, "EOF") or not r1.code.startswith("1"):
            bad("wrong-reply", f"{line} -> {r1}")
        else:
            if verb in ("STOR", "APPE"):
                dw.write(b"u" * after)
                await dw.drain()
                await net.settle()
            elif after:
                await p.read_data(dr, wait=10, limit=after)
            if how == "rst":
                dw.transport.abort()
            else:
                dw.close()
            mon["data_cut"] += 1
            r2 = await p.read_reply(wait=30)
            code = r2.code if r2 not in (None, "EOF") else str(r2)
            transcript.append([line, how, after, code])
            if r2 in (None, "EOF"):
                bad("session-dropped" if r2 == "EOF" else "no-reply",
                    f"after the mark {r1.code} no completion reply, {'the control connection was closed' if r2 == 'EOF' else 'nothing for 30 s'}")
            else:
                if verb == "RETR" and not code.startswith("4"):
                    # 2 MB, of which the network takes a tenth before the reset is back at the server: it knows
                    bad("success-reply", f"completion reply {code} although most of the data was never delivered")
                elif not (code.startswith("4") or code in ("226", "200")):
                    # (a listing may have gone out completely before the server could notice; an upload ends where the data ends)
                    bad("wrong-reply", f"completion reply {code}")
                mon["silence"] += 1
                quiet, buf = await p.silent()
                if not quiet:
                    bad("unsolicited-reply", f"extra bytes after the completion reply {code}: {buf[:80]!r}")
                mon["alive"] += 1
                r3 = await p.cmd("PWD")
                if r3 in (None, "EOF") or r3.code != "257":
                    bad("session-dropped-after-reply", f"completion reply {code}, then PWD -> {r3}")
                else:
                    # the next transfer: through the same listener (every other plan) or a new one
                    if not plan.get("reuse"):
                        r = await p.cmd(pcmd)
                        port = p.parse_epsv(r) if pcmd == "EPSV" else p.parse_pasv(r)[1]
                    try:
                        dr2, dw2 = await p.open_data(port)
                    except OSError as e:
                        dr2 = None
                        bad("followup-refused", f"data connection for the next transfer refused: {e!r}")
                    if dr2 is not None:
                        r4 = await p.cmd("RETR /a/f1")
                        got, st = await p.read_data(dr2, wait=10)
                        dw2.close()
                        r5 = await p.read_reply()
                        codes = [x.code if x not in (None, "EOF") else str(x) for x in (r4, r5)]
                        mon["content"] += 1
                        if codes != ["150", "226"] or got != TREE_CUT["/a/f1"]:
                            bad("followup-failed", f"next transfer (listener {'re-used' if plan.get('reuse') else 'new'}): replies {codes}, {len(got)} bytes")
                mon["tree_vs_model"] += 1
                t = w.tree()
                changed = sorted(k for k in set(t) | set(tree_before) if t.get(k) != tree_before.get(k))
                if verb in ("STOR", "APPE"):
                    target = "/up.bin" if verb == "STOR" else "/top.txt"
                    base = b"" if verb == "STOR" else TREE_CUT["/top.txt"]
                    cur = t.get(target)
                    if changed not in ([], [target]) or not isinstance(cur, bytes) or not (base + b"u" * after).startswith(cur) or not cur.startswith(base):
                        bad("tree-differs", f"after the cut upload: changed {changed[:4]}, {target} holds {len(cur) if isinstance(cur, bytes) else cur} bytes")
                elif changed:
                    bad("tree-differs", f"a download changed the tree at {changed[:4]}")
        p.cut("fin")
        await net.quiesce(1.0)
        for leak in w.leaks():
            bad("leak", leak)
        await w.stop()
        return {"violations": viol, "monitors": mon, "sig": sig_of([plan, transcript]), "nontrivial": bool(transcript), "transcript": transcript}
    finally:
        w.cleanup()


def run_case(case):
    plan = case["plan"]

    async def main(net, hyg):
        if plan.get("kind") == "datacut":
            return await run_datacut(net, hyg, plan)
        return await run_sequence(net, hyg, plan)
    res, info = W.run(main, seed=plan.get("seed", 0), net_kwargs=dict(mss=plan.get("mss", 1460), latency=0.001))
    if res is None:
        return W.failed(info)
    if res.get("inconclusive"):
        return res
    for v in res["violations"]:
        v["replay_case"] = {"plan": dict(plan, commands=None) if plan.get("commands") is None else plan}
    le = info["hygiene"].serious_loop_errors()
    if le:
        res["violations"].append({"key": "exception-reached-loop", "msg": f"{le[:2]}"})
    res["sample"] = {"plan": {k: v for k, v in plan.items() if k != "commands"}, "transcript": res.pop("transcript")[:40]}
    return res


ALPHABET = [
    ("PWD", "", None, "plain"), ("CWD", "/a", None, "path"), ("CWD", "a/sub/../..", None, "path"), ("CDUP", "", None, "plain"),
    ("MKD", "/a/new", None, "path"), ("RMD", "/b", None, "path"), ("DELE", "/top.txt", None, "path"),
    ("RNFR", "/top.txt", None, "path"), ("RNFR", "/missing", None, "path"), ("RNTO", "/a/moved", None, "path"),
    ("RNTO", "/a/f1", None, "path"), ("MLST", "/a/f1", None, "path"), ("PASV", "", None, "plain"), ("EPSV", "", None, "epsv:plain"),
    ("EPSV", "1", None, "epsv:arg"), ("REST", "7", None, "rest:ascii"), ("REST", "²", None, "rest:nonascii-digit"),
    ("REST", "x", None, "rest:malformed"), ("RETR", "/top.txt", "before", "xfer"), ("RETR", "/top.txt", "never", "xfer"),
    ("STOR", "/a/up", "after", "xfer"), ("APPE", "/top.txt", "before", "xfer"), ("MLSD", "/a", "before", "xfer"),
    ("LIST", "/a", "after", "xfer"), ("ABOR", "", None, "plain"), ("TYPE", "E", None, "type:bad"), ("NOOP", "", None, "unknown"),
    ("USER", "alice", None, "relogin"), ("PASS", "secret", None, "pass"), ("USER", "anonymous", None, "relogin"),
]


def gen_cases(tier, seed):
    cases = []
    nrand = 600 if tier == "quick" else 60000
    for i in range(nrand):
        cases.append({"plan": {"seed": seed * 1000003 + i, "length": 30, "users": "A" if i % 3 else "B",
                               "mss": [1460, 1460, 7, 64][i % 4], "block_size": [8192, 512, 7][i % 3],
                               "cfg": [None, None, "wft-none", "limits", "timeouts", "limits-held"][i % 6]}})
    login = [("USER", "anonymous", None, "user")]
    L = 2 if tier == "quick" else 3
    stride = 1
    for k, seq in enumerate(itertools.product(ALPHABET, repeat=L)):
        if tier == "thorough" and L == 3 and (k + seed) % 3:
            continue  # a third of the 27000 triples per seed
        cases.append({"plan": {"seed": seed, "commands": [list(x) for x in login + list(seq) + [("PWD", "", None, "plain")]]}})
    # targeted multi-step sequences (each needs a specific history to show anything)
    A = ("USER", "anonymous", None, "user")
    E = ("EPSV", "", None, "epsv:plain")
    targeted = [
        [A, E, ("REST", "7", None, "rest:ascii"), ("NOOP", "", None, "unknown"), ("STOR", "/top.txt", "before", "xfer")],
        [A, E, ("REST", "7", None, "rest:ascii"), ("FEAT", "", None, "unknown"), ("RETR", "/top.txt", "after", "xfer")],
        [A, ("PASV", "", None, "plain"), ("REST", "4", None, "rest:ascii"), ("RETR", "/top.txt", "before", "xfer"),
         ("RETR", "/top.txt", "before", "xfer"), ("STOR", "/top.txt", "before", "xfer")],
        [A, E, ("REST", "3", None, "rest:ascii"), ("STOR", "/top.txt", "after", "xfer"), ("APPE", "/top.txt", "after", "xfer")],
        [A, E, ("REST", "5", None, "rest:ascii"), ("RETR", "/top.txt", "never", "xfer"), ("RETR", "/top.txt", "before", "xfer")],
        [A, ("RNFR", "/top.txt", None, "path"), ("USER", "bob", None, "relogin"), ("RNTO", "/a/stolen", None, "path")],
        [A, ("RNFR", "/top.txt", None, "path"), ("USER", "alice", None, "relogin"), ("PASS", "secret", None, "pass"),
         ("RNTO", "/a/stolen", None, "path")],
        [A, ("RNFR", "/a", None, "path"), ("RNTO", "/a/sub/inside", None, "path"), ("MLST", "/a/f1", None, "path")],
        [A, E, ("REST", "9", None, "rest:ascii"), ("STOR", "/a/brand-new", "before", "xfer")],
        [A, E, ("REST", "4", None, "rest:ascii"), ("LIST", "/a", "before", "xfer"), ("RETR", "/top.txt", "before", "xfer")],
        [A, E, ("REST", "4", None, "rest:ascii"), ("MLSD", "/a", "after", "xfer"), ("RETR", "/top.txt", "after", "xfer")],
        [A, E, ("REST", "2", None, "rest:ascii"), ("LIST", "/", "before", "xfer"), ("STOR", "/top.txt", "before", "xfer"),
         ("RETR", "/top.txt", "before", "xfer")],
        [A, E, ("REST", "3", None, "rest:ascii"), ("MLSD", "/nope", "before", "xfer"), ("APPE", "/top.txt", "before", "xfer")],
        [A, ("REST", "²", None, "rest:nonascii-digit"), ("PWD", "", None, "plain")],
        [A, ("REST", "①", None, "rest:nonascii-digit"), ("PWD", "", None, "plain")],
        [A, ("REST", "7" * 5000, None, "rest:astronomic"), ("PWD", "", None, "plain")],
        [A, E, ("REST", "1" + "0" * 4400, None, "rest:astronomic"), ("NOOP", "", None, "unknown"), ("RETR", "/top.txt", "before", "xfer")],
        [A, ("EPSV", "1", None, "epsv:arg"), E, ("RETR", "/top.txt", "before", "xfer")],
        [A, ("RNFR", "/top.txt", None, "path"), ("RNTO", "/b", None, "path"), ("RNTO", "/b/moved", None, "path"),
         ("RNTO", "/b/again", None, "path")],
        [A, E, ("STOR", "/a", "before", "xfer"), E, ("RETR", "/a/f1", "before", "xfer")],
        [A, E, ("MLSD", "/a/f1", "before", "xfer"), E, ("LIST", "/top.txt", "after", "xfer")],
        [A, ("CWD", "/a/sub", None, "path"), ("USER", "bob", None, "relogin"), ("PWD", "", None, "plain")],
        [A, ("CWD", "/a/sub", None, "path"), ("USER", "nobody-here", None, "relogin"), ("PWD", "", None, "plain")],
    ]
    for users in ("A", "B"):
        for seq in targeted:
            if users == "B":
                seq = [("USER", "bob", None, "user") if x is A else x for x in seq]
            cases.append({"plan": {"seed": seed, "users": users,
                                   "commands": [list(x) for x in seq + [("PWD", "", None, "plain")]]}})
            for cfg in ("wft-none", "limits", "timeouts", "limits-held"):
                cases.append({"plan": {"seed": seed, "users": users, "cfg": cfg,
                                       "commands": [list(x) for x in seq + [("PWD", "", None, "plain")]]}})
    # a transfer command that is refused without a mark, then another one on the data connection the first left unused
    # (no new PASV / EPSV in between): the restart offset was for the refused one
    R3 = ("REST", "3", None, "rest:ascii")
    unused = [
        [A, E, R3, ("RETR", "/nope", "before", "xfer"), ("RETR", "/top.txt", "before", "xfer")],
        [A, E, R3, ("RETR", "/a", "before", "xfer"), ("APPE", "/top.txt", "before", "xfer"), ("RETR", "/top.txt", "before", "xfer")],
        [A, E, R3, ("STOR", "/nope/x", "before", "xfer"), ("STOR", "/top.txt", "before", "xfer"), ("RETR", "/top.txt", "before", "xfer")],
        [A, E, R3, ("APPE", "/top.txt/under", "before", "xfer"), ("RETR", "/a/f1", "before", "xfer")],
        [A, E, ("RETR", "/nope", "before", "xfer"), R3, ("RETR", "/top.txt", "before", "xfer")],
        [A, E, R3, ("RETR", "/nope", "before", "xfer"), ("LIST", "/a", "before", "xfer"), ("RETR", "/top.txt", "before", "xfer")],
    ]
    for seq in unused:
        for backend in ("memory", "pathio"):
            cases.append({"plan": {"seed": seed, "users": "A", "keep_unused": True, "backend": backend,
                                   "commands": [list(x) for x in seq + [("PWD", "", None, "plain")]]}})
    # pairs under non-default server configurations (a third of them each)
    for k, seq in enumerate(itertools.product(ALPHABET, repeat=2)):
        cfg = ["wft-none", "limits", "timeouts", "limits-held"][k % 4]
        cases.append({"plan": {"seed": seed, "cfg": cfg, "commands": [list(x) for x in login + list(seq) + [("PWD", "", None, "plain")]]}})
    # the peer ends the data connection itself in mid-transfer and carries on
    n = 0
    for verb in ("RETR", "LIST", "MLSD", "STOR", "APPE"):
        for how in ("fin", "rst"):
            if how == "fin" and verb in ("STOR", "APPE"):
                continue        # (that is how an upload ends normally)
            for after in ((0, 1000, 70000) if tier == "quick" else (0, 1, 1000, 8192, 20000, 70000, 150000)):
                for backend in (("memory", "pathio") if tier == "quick" else ("memory", "pathio", "async")):
                    n += 1
                    cases.append({"plan": {"kind": "datacut", "verb": verb, "how": how, "after": after, "backend": backend, "seed": seed,
                                           "pcmd": "PASV" if n % 3 == 0 else "EPSV", "reuse": n % 2 == 0,
                                           "block_size": [8192, 512, 65536][n % 3],
                                           "server_kwargs": {"socket_timeout": 20, "idle_timeout": 60} if n % 4 == 1 else None}})
    if tier == "thorough":
        for i in range(300):
            cases.append({"plan": {"seed": seed * 7 + i, "length": 25, "backend": "pathio" if i % 2 else "async", "users": "A"}})
    return cases
