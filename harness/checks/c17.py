"""C17 - concurrent sessions do not interfere with each other."""

import asyncio
import os
import random
import time

from .. import boot  # noqa: F401
from .. import world as W
from ..corpus import corpus, corpus_tree, corpus_users
from ..drive import Drive
from ..runner import sig_of
import aioftp
import aioftp.pathio
import aioftp.server

PROPERTY = "C17"
LEVEL = "exploration"
RULE = ("pairs and triples of corpus scripts (all verbs and transfer kinds) on disjoint path prefixes, same or different users, "
        "run solo and then interleaved under seeded schedules: start offsets, per-connection latency skews, segment sizes, "
        "back-end delays, optionally one session reset at a random event or aborting a transfer.  Oracle (non-interference): "
        "each surviving session's transcript (ports normalised) and downloaded bytes equal its solo run, every back-end call of "
        "session i names a path under prefix i, and the final sub-tree under each prefix equals the solo run's.  Clocks seen by "
        "aioftp (pathio.time, server.time) are pinned so that Modify/Create facts are comparable.  distinct = distinct "
        "(scripts, global event order) signatures - i.e. distinct interleavings actually observed; non-trivial = the network "
        "events of two sessions really alternate at least twice.")
RULE += ("  " + "Also: the same transfer kind in several sessions with a suspending back end; aioftp's own client in 2-3 sessions of one process; PathIO / AsyncPathIO worlds; an account limited to two connections next to sessions that mistype its password.")
RULE += ("  " + 'Also (round 6): accounts with differing permissions on ONE base directory (same real paths), every script read-only or refused for its account, started in either order.')
RULE += ("  " + 'Also: a session retrying its login next to real logins of an account limited to two connections; accounts with differing permissions using the same virtual paths.')
RULE += ("  " + 'Also (round 7): prefixes whose names are textual prefixes of each other, one session dwelling in its directory while the other removes / renames its own; every client operation in all sessions at the same moment (deterministic plans).')
RULE += ("  " + 'Also (round 8): the second session of a re-used Client object sends what a fresh client sends.')
RULE += ("  " + 'Also (round 10): two sessions whose commands are refused for different reasons (no login / no RNFR, no listener); the solo reference of each is run in a FRESH PROCESS (fresh_process_solo), so that nothing the library keeps at class or module level is shared with it.')
RULE += ("  " + 'Also (round 11): MLSD / LIST of the directory both sessions live in, entry by entry (2 ms per step), while the other session removes / creates / renames top-level entries of its own: every entry of the lister exactly once (parent_listing).')
ASSUMPTIONS = ["MemoryPathIO back end shared by all sessions of the server (as in production: one state per server)",
               "pinned clock for file times"]
REQUIRED_MONITORS = ["transcript_vs_solo", "tree_vs_solo", "backend_prefix", "clients_vs_solo"]
ANCHOR_FUNCTIONS = ['server.py:Server.dispatcher', 'server.py:Server.rnfr', 'server.py:Server.cwd']
EXHAUSTIVE = {"quick": False, "thorough": False}

NAMES = ["walk", "mkd_rmd", "stor_pasv", "stor_epsv_after", "appe", "retr_pasv", "retr_epsv_after", "retr_rest", "stor_rest", "list",
         "mlsd", "mlsd_dir", "mlst", "rename", "dele", "two_transfers", "pasv_twice", "noconnect", "relogin", "login_pw", "stor_slow",
         "retr_missing", "stor_unreachable", "misc", "abor_idle", "abor_mid", "retr_huge", "pipelined"]


class _T:
    def __getattr__(self, n):
        return getattr(time, n)

    def time(self):
        return 1700000000.0


def pin_clocks():
    aioftp.pathio.time = _T()
    aioftp.server.time = _T()


RESTRICTED = lambda: [aioftp.Permission("/"), aioftp.Permission("/dir", writable=False),  # noqa: E731
                      aioftp.Permission("/f.bin", readable=False)]


def prefix_of(plan, i):
    if plan.get("shared_base"):
        return "/srv/all"
    return f"/srv/u{i}" if plan.get("bases") else plan["prefixes"][i]


async def run_world(net, plan, which, cut=None):
    prefixes = plan["prefixes"]
    if plan.get("shared_base"):
        # accounts with differing permissions on ONE base directory: the same virtual and real paths; every script is
        # read-only or refused for its account, so the sessions stay independent of each other
        n = len(plan["scripts"])
        users = [aioftp.User(f"u{i}", None, base_path="/srv/all", **({"permissions": RESTRICTED()} if i % 2 else {})) for i in range(n)]
        tree = {"/srv": "<DIR>", "/srv/all": "<DIR>"}
        tree.update({f"/srv/all{k}": v for k, v in corpus_tree([""]).items()})
        w = W.World(net, tree=tree, users=users)
    elif plan.get("bases"):
        # different users with different base directories working on the *same* virtual paths
        n = len(plan["scripts"])
        users = [aioftp.User(f"u{i}", None, base_path=f"/srv/u{i}",
                             **({"permissions": [aioftp.Permission("/"), aioftp.Permission("/dir", writable=False),
                                                 aioftp.Permission("/f.bin", readable=False)]} if plan.get("perms") and i % 2 else {}))
                 for i in range(n)]
        tree = {"/srv": "<DIR>"}
        for i in range(n):
            tree[f"/srv/u{i}"] = "<DIR>"
            tree.update({f"/srv/u{i}{k}": v for k, v in corpus_tree([""]).items()})
        w = W.World(net, tree=tree, users=users)
    else:
        users_ = corpus_users
        if plan.get("limits"):
            # an account with a connection limit that the concurrent sessions together never exceed
            def users_(base):
                return [aioftp.User(base_path=base), aioftp.User("alice", "secret", base_path=base, maximum_connections=plan["limits"])]
        w = W.World(net, tree=corpus_tree(prefixes), users=users_, backend=plan.get("backend", "memory"))
    await w.start()
    try:
        rng = random.Random(plan["seed"])
        if plan.get("backend_delay"):
            w.ctl.delay = lambda op, path, n: rng.choice(plan["backend_delay"])
        scripts = []
        for i in which:
            P_ = "" if (plan.get("bases") or plan.get("shared_base")) else prefixes[i]
            local_scripts = {
                # works on its whole prefix directory (the name is a textual prefix of a sibling's name), and one that stays put
                "rename_root": [["connect"], ["login"], ["cmd", f"RNFR {P_}"], ["cmd", "PWD"], ["cmd", f"RMD {P_}"], ["cmd", f"RNFR {P_}"],
                                ["cmd", f"RNTO {P_}/dir/inside"], ["cmd", f"MKD {P_}/dir/sub"], ["cmd", f"RMD {P_}/dir/sub"], ["cmd", f"MLST {P_}"], ["quit"]],
                "rmd_and_back": [["connect"], ["login"], ["cmd", f"MKD {P_}/di"], ["cmd", f"RMD {P_}/di"], ["cmd", f"RNFR {P_}/di"],
                                 ["cmd", f"MKD {P_}/d"], ["cmd", f"RNFR {P_}/d"], ["cmd", f"RNTO {P_}/d2"], ["cmd", f"RMD {P_}/d2"], ["quit"]],
                "dwell": [["connect"], ["login"], ["cmd", f"CWD {P_}/dir"], ["sleep", 0.06], ["cmd", "PWD"], ["cmd", "CDUP"], ["sleep", 0.02], ["quit"]],
                # commands that are refused: for want of a login (first script), for want of RNFR / of a passive listener (second)
                "refused_nologin": [["connect"], ["cmd", f"RNTO {P_}/x"], ["cmd", f"LIST {P_}"], ["cmd", f"RETR {P_}/f.bin"], ["cmd", f"STOR {P_}/y"],
                                    ["cmd", f"MLSD {P_}"], ["cmd", "PASV"], ["quit"]],
                "refused_loggedin": [["connect"], ["login"], ["cmd", f"RNTO {P_}/x"], ["cmd", f"LIST {P_}"], ["cmd", f"RETR {P_}/f.bin"],
                                     ["cmd", f"STOR {P_}/y"], ["cmd", f"MLSD {P_}"], ["cmd", "PWD"], ["quit"]],
            }
            sc = local_scripts[plan["scripts"][i]] if plan["scripts"][i] in local_scripts else corpus(P_)[plan["scripts"][i]]
            if plan.get("bases") or plan.get("shared_base"):
                sc = [(["login", f"u{i}"] if st == ["login"] else st) for st in sc]
            elif plan["users"][i] == "alice":
                sc = [(["login", "alice", "secret"] if st == ["login"] else st) for st in sc]
            scripts.append(sc)
        offs = [plan["offsets"][i] for i in which] if len(which) > 1 else [0]
        lats = plan["lat"]

        def policy(conn):
            conn.latency = lats[conn.id % len(lats)]
            conn.mss = plan["mss"][conn.id % len(plan["mss"])]
        if len(which) > 1:
            net.conn_policy = policy
        d = Drive(net, w, scripts, offsets=offs, cut=cut)
        await d.run()
        d.finish_peers()
        await net.quiesce(1.0)
        tree = w.tree()
        root = "" if plan.get("backend", "memory") == "memory" else str(w.base).rstrip("/")
        calls = [(nn, port, op, (pth[len(root):] or "/") if (pth is not None and root and pth.startswith(root)) else pth, t)
                 for (nn, port, op, pth, t) in w.ctl.calls]
        out = []
        for s in d.sessions:
            port = s.peer.writer.transport.get_extra_info("sockname")[1] if s.peer.writer else None
            def norm_dl(v, b):
                if root and v in ("MLSD", "LIST"):
                    # a real directory carries real time stamps (they differ between two runs): names only
                    return ",".join(sorted((ln.split(b"; ", 1)[-1] if v == "MLSD" else ln.rsplit(b" ", 1)[-1]).hex()
                                           for ln in bytes(b).split(b"\r\n") if ln))
                return bytes(b).hex()
            out.append({"transcript": s.peer.normalized(), "downloads": [[v, a, norm_dl(v, b), st] for v, a, b, st in s.downloads],
                        "port": port, "alive_end": s.ended_by})
        await w.stop()
        return out, tree, calls, net.order_signature(), d.cut_done
    finally:
        w.cleanup()


CLIENT_OPS = ["list_recursive", "list", "stat", "download", "upload", "mkd_rmd", "rename", "exists", "pwd_cd"]


async def client_session(c, prefix, ops, gap):
    """high-level operations of aioftp's own client on one prefix; returns a normalised record of what the caller saw"""
    import pathlib
    rec = []
    for op in ops:
        try:
            if op == "list_recursive":
                r = await c.list(prefix, recursive=True)
                rec.append([op, sorted((str(p), i.get("type"), i.get("size") if i.get("type") == "file" else None) for p, i in r)])
            elif op == "list":
                r = await c.list(prefix + "/dir")
                rec.append([op, sorted((str(p), i.get("type")) for p, i in r)])
            elif op == "stat":
                i = await c.stat(prefix + "/f.bin")
                rec.append([op, i.get("type"), i.get("size")])
            elif op == "download":
                got = b""
                async with c.download_stream(prefix + "/f.bin") as s:
                    async for b in s.iter_by_block(1000):
                        got += b
                        await asyncio.sleep(gap)
                rec.append([op, len(got), got[:16].hex(), got[-16:].hex()])
            elif op == "upload":
                async with c.upload_stream(prefix + "/cl-up.bin") as s:
                    for k in range(6):
                        await s.write(bytes([65 + k]) * 700)
                        await asyncio.sleep(gap)
                rec.append([op, "done"])
            elif op == "mkd_rmd":
                await c.make_directory(prefix + "/cl-new/deep")
                await c.remove(prefix + "/cl-new")
                rec.append([op, await c.exists(prefix + "/cl-new")])
            elif op == "rename":
                await c.rename(prefix + "/dir/g.txt", prefix + "/dir/g2.txt")
                await c.rename(prefix + "/dir/g2.txt", prefix + "/dir/g.txt")
                rec.append([op, "done"])
            elif op == "exists":
                rec.append([op, await c.exists(prefix + "/nope"), await c.is_file(prefix + "/f.bin"), await c.is_dir(prefix + "/dir")])
            elif op == "pwd_cd":
                await c.change_directory(prefix + "/dir")
                a = str(await c.get_current_directory())
                await c.change_directory("..")
                rec.append([op, a, str(await c.get_current_directory())])
        except Exception as e:      # an ordinary failure is part of the record
            rec.append([op, "raised", type(e).__name__, str(e)[:80]])
        await asyncio.sleep(gap)
    return rec


async def run_clients(net, plan, which):
    prefixes = plan["prefixes"]
    w = W.World(net, tree=corpus_tree(prefixes), users=corpus_users)
    await w.start()
    try:
        rng = random.Random(plan["seed"])
        if plan.get("backend_delay"):
            w.ctl.delay = lambda op, path, n: rng.choice(plan["backend_delay"])

        async def one(i):
            await asyncio.sleep(plan["offsets"][i] if len(which) > 1 else 0)
            c = aioftp.Client(path_io_factory=aioftp.MemoryPathIO)
            await c.connect("127.0.0.1", 2121)
            await c.login()
            rec = await client_session(c, prefixes[i], plan["ops"][i], plan["gaps"][i])
            await c.quit()
            return rec
        recs = await asyncio.wait_for(asyncio.gather(*[one(i) for i in which]), 600)
        await net.quiesce(1.0)
        tree = w.tree()
        await w.stop()
        return recs, tree
    finally:
        w.cleanup()


async def two_lives(net, hyg, plan):
    """one Client object, two sessions one after the other: the second session says to the server what a fresh client's
    session says (nothing negotiated in the first one is taken for granted in the second)"""
    import logging

    class Grab(logging.Handler):
        def __init__(self):
            super().__init__(logging.DEBUG)
            self.lines = []

        def emit(self, record):
            try:
                self.lines.append(record.getMessage())
            except Exception:
                pass
    w = W.World(net, tree=corpus_tree(["/s0"]))
    await w.start()
    log = logging.getLogger("aioftp.client")
    old_level = log.level
    log.setLevel(logging.DEBUG)
    lives = []
    try:
        reused = aioftp.Client(path_io_factory=aioftp.MemoryPathIO)
        for life in range(3):
            c = reused if life < 2 else aioftp.Client(path_io_factory=aioftp.MemoryPathIO)      # life 2: a fresh object, the reference
            g = Grab()
            log.addHandler(g)
            try:
                await c.connect("127.0.0.1", 2121)
                await c.login()
                for op in plan["ops"]:
                    if op == "upload":
                        async with c.upload_stream("/s0/up.bin") as st:
                            await st.write(b"12345")
                    elif op == "download":
                        async with c.download_stream("/s0/f.bin") as st:
                            await st.read()
                    elif op == "list":
                        await c.list("/s0")
                    elif op == "cd":
                        await c.change_directory("/s0/dir")
                        await c.get_current_directory()
                await c.quit()
            finally:
                log.removeHandler(g)
            # what was sent: lines that look like commands (verb in capitals first)
            cmds = [ln.split(" ")[0] for ln in g.lines if ln[:4].strip().isalpha() and ln[:3].isupper()]
            lives.append(cmds)
        viol = []
        if lives[1] != lives[2]:
            viol.append({"key": "second-session-of-a-client-differs-from-a-fresh-one",
                         "msg": f"ops {plan['ops']}: the re-used Client sent {lives[1]} in its second session, a fresh Client sends {lives[2]}"})
        await w.stop()
        return {"violations": viol, "lives": lives}
    finally:
        log.setLevel(old_level)
        w.cleanup()


def run_clients_plan(plan, out):
    if plan.get("two_lives"):
        async def main0(net, hyg):
            return await two_lives(net, hyg, plan)
        res, info = W.run(main0, seed=plan["seed"], net_kwargs=dict(latency=0.001))
        if res is None:
            return W.failed(info, "two lives")
        out["monitors"]["client_two_lives"] = out["monitors"].get("client_two_lives", 0) + 1
        for v in res["violations"]:
            v["replay_case"] = {"plans": [plan]}
            out["violations"].append(v)
        return None
    n = len(plan["prefixes"])
    solos = []
    for i in range(n):
        async def main(net, hyg, i=i):
            return await run_clients(net, plan, [i])
        res, info = W.run(main, seed=plan["seed"], net_kwargs=dict(latency=0.001))
        if res is None:
            return W.failed(info, f"client solo {i}")
        solos.append(res)

    async def main2(net, hyg):
        return await run_clients(net, plan, list(range(n)))
    res, info = W.run(main2, seed=plan["seed"], net_kwargs=dict(latency=0.001))
    if res is None:
        return W.failed(info, f"clients interleaved {plan['ops']}")
    recs, tree = res
    where = f"aioftp clients, ops {plan['ops']} seed {plan['seed']}"
    for i in range(n):
        out["monitors"]["clients_vs_solo"] = out["monitors"].get("clients_vs_solo", 0) + 1
        solo = solos[i][0][0]
        if recs[i] != solo:
            j = next((k for k, (x, y) in enumerate(zip(recs[i], solo)) if x != y), 0)
            out["violations"].append({"key": f"client-result-differs-from-solo:{recs[i][j][0] if j < len(recs[i]) else '?'}",
                                      "msg": f"{where}: client {i} on {plan['prefixes'][i]} saw {str(recs[i][j])[:300]} next to the others, "
                                             f"{str(solo[j])[:300]} alone", "replay_case": {"plans": [plan]}})
        p = plan["prefixes"][i]
        sub = {k: v for k, v in tree.items() if k == p or k.startswith(p + "/")}
        ssub = {k: v for k, v in solos[i][1].items() if k == p or k.startswith(p + "/")}
        if sub != ssub:
            out["violations"].append({"key": "tree-differs-from-solo:clients", "msg": f"{where}: sub-tree {p} differs from the solo run",
                                      "replay_case": {"plans": [plan]}})
    out["sigs"].append(sig_of(["clients", plan["ops"], plan["seed"]]))
    return None


async def parent_listing(net, hyg, plan):
    """one session lists the directory both sessions live in, entry by entry with a storage that takes its time; the other session
    removes / creates / renames top-level entries OF ITS OWN meanwhile: whatever the listing says about those, every entry that was
    there all the time (the lister's own) is listed exactly once"""
    from ..rawpeer import RawPeer
    n = plan["n"]
    tree = {"/0b_first": "<DIR>", "/0b_gone.txt": b"x"}
    tree.update({f"/a_{i:04d}": (b"a" if i % 2 else "<DIR>") for i in range(n)})
    tree["/b_last"] = "<DIR>"
    w = W.World(net, tree=tree, users=lambda base: [aioftp.User(base_path=base)], backend=plan.get("backend", "memory"))
    await w.start()
    viol = []
    try:
        w.ctl.delay = lambda op, path, nn: plan["step_delay"] if op == "list" else 0
        a, b = RawPeer(net, 2121, name="lister"), RawPeer(net, 2121, name="other")
        for p_ in (a, b):
            await p_.connect()
            await p_.cmd("USER anonymous")
        port = a.parse_epsv(await a.cmd("EPSV"))
        dr, dw = await a.open_data(port)
        a.send(plan["verb"] + " /")

        async def other():
            await asyncio.sleep(plan["step_delay"] * n * plan["at"])
            for ln in plan["other"]:
                await b.cmd(ln)
        ot = asyncio.ensure_future(other())
        r1 = await a.read_reply(wait=60)
        data, st = await a.read_data(dr, wait=120)
        dw.close()
        r2 = await a.read_reply(wait=60)
        await ot
        lines = [x for x in data.decode("utf-8", "replace").split("\r\n") if x]
        names = [(ln.partition("; ")[2] if plan["verb"] == "MLSD" else ln.rsplit(" ", 1)[-1]) for ln in lines]
        own = [f"a_{i:04d}" for i in range(n)]
        missing = [x for x in own if names.count(x) == 0]
        twice = [x for x in own if names.count(x) > 1]
        codes = [r.code if r not in (None, "EOF") else str(r) for r in (r1, r2)]
        where = f"{plan['verb']} / of {n + 3} entries ({plan.get('backend', 'memory')}), the other session meanwhile: {plan['other']}"
        if codes[0] != "150" or codes[1] not in ("226", "200"):
            viol.append({"key": "parent-listing-failed", "msg": f"{where}: replies {codes}"})
        elif missing or twice:
            viol.append({"key": "entry-of-the-lister-missing-from-parent-listing" if missing else "entry-listed-twice-in-parent-listing",
                         "msg": f"{where}: of the lister's own {n} entries, which nobody touched, {missing[:3]} are missing and {twice[:3]} "
                                f"are listed twice ({len(names)} lines)"})
        for p_ in (a, b):
            p_.cut("fin")
        await w.stop()
        return {"violations": viol, "listed": len(names)}
    finally:
        w.cleanup()


def run_case(case):
    pin_clocks()
    out = {"violations": [], "monitors": {"transcript_vs_solo": 0, "tree_vs_solo": 0, "backend_prefix": 0}, "sigs": []}
    for plan in case["plans"]:
        if plan.get("parent_listing"):
            async def main_pl(net, hyg, plan=plan):
                return await parent_listing(net, hyg, plan)
            res, info = W.run(main_pl, seed=plan["seed"], net_kwargs=dict(latency=0.001))
            if res is None:
                return W.failed(info, "parent listing")
            out["monitors"]["parent_listing"] = out["monitors"].get("parent_listing", 0) + 1
            for v in res["violations"]:
                v["replay_case"] = {"plans": [plan]}
                out["violations"].append(v)
            out["sigs"].append(sig_of(["parent_listing", plan]))
            continue
        if plan.get("clients"):
            bad = run_clients_plan(plan, out)
            if bad is not None:
                return bad
            continue
        n = len(plan["scripts"])
        solos = []
        for i in range(n):
            if plan.get("fresh_solo"):
                # the reference run in a process of its own: nothing an earlier session of THIS process left behind (class or
                # module level state of the library) can be in it
                import json as json_, subprocess, sys
                pr = subprocess.run([sys.executable, "-m", "harness.checks.c17", "--solo", json_.dumps(plan), str(i)], capture_output=True,
                                    text=True, timeout=300, cwd=os.path.dirname(os.path.dirname(os.path.dirname(os.path.abspath(__file__)))))
                try:
                    ref = json_.loads(pr.stdout.strip().splitlines()[-1])
                except Exception:
                    return {"inconclusive": f"fresh-process solo run failed: rc={pr.returncode} {pr.stderr[-300:]}"}
                out["monitors"]["fresh_process_solo"] = out["monitors"].get("fresh_process_solo", 0) + 1
                tree_ = {k: (bytes.fromhex(v[4:]) if isinstance(v, str) and v.startswith("hex:") else v) for k, v in ref["tree"].items()}
                solos.append(([{"transcript": ref["transcript"], "downloads": ref["downloads"]}], tree_))
                continue
            async def main(net, hyg, i=i):
                return await run_world(net, plan, [i])
            res, info = W.run(main, seed=plan["seed"], net_kwargs=dict(latency=0.001))
            if res is None:
                return W.failed(info, f"solo {plan['scripts'][i]}")
            solos.append(res)

        async def main2(net, hyg):
            return await run_world(net, plan, list(range(n)), cut=plan.get("cut"))
        res, info = W.run(main2, seed=plan["seed"], net_kwargs=dict(latency=0.001))
        if res is None:
            return W.failed(info, f"interleaved {plan['scripts']}")
        sess, tree, calls, order, cut_done = res
        cut_who = plan["cut"]["who"] if plan.get("cut") and cut_done else None
        where = f"scripts {plan['scripts']} users {plan['users']} seed {plan['seed']} cut {plan.get('cut')}"
        for i in range(n):
            if i == cut_who:
                continue
            solo = solos[i][0][0]
            out["monitors"]["transcript_vs_solo"] += 1
            if sess[i]["transcript"] != solo["transcript"]:
                a, b = sess[i]["transcript"], solo["transcript"]
                j = next((k for k, (x, y) in enumerate(zip(a, b)) if x != y), min(len(a), len(b)))
                out["violations"].append({"key": f"transcript-differs-from-solo:{plan['scripts'][i]}",
                                          "msg": f"{where}: session {i} ({plan['scripts'][i]} on {plan['prefixes'][i]}) entry {j}: "
                                                 f"interleaved {a[j:j + 2]} vs solo {b[j:j + 2]}",
                                          "replay_case": {"plans": [plan]}})
            elif sess[i]["downloads"] != solo["downloads"]:
                out["violations"].append({"key": f"data-differs-from-solo:{plan['scripts'][i]}",
                                          "msg": f"{where}: session {i} received different bytes than alone",
                                          "replay_case": {"plans": [plan]}})
            # sub-tree
            out["monitors"]["tree_vs_solo"] += 1
            p = prefix_of(plan, i)
            sub = {k: v for k, v in tree.items() if k == p or k.startswith(p + "/")}
            ssub = {k: v for k, v in solos[i][1].items() if k == p or k.startswith(p + "/")}
            if sub != ssub:
                diff = sorted(set(sub) ^ set(ssub)) or [k for k in sub if sub[k] != ssub.get(k)]
                out["violations"].append({"key": f"tree-differs-from-solo:{plan['scripts'][i]}",
                                          "msg": f"{where}: sub-tree {p} differs from the solo run at {diff[:4]}",
                                          "replay_case": {"plans": [plan]}})
        # back-end calls stay in the caller's prefix
        port2i = {s["port"]: i for i, s in enumerate(sess)}
        for (nn, port, op, path, t) in calls:
            if path is None or port not in port2i:
                continue
            i = port2i[port]
            p = prefix_of(plan, i)
            out["monitors"]["backend_prefix"] += 1
            if not (path == p or path.startswith(p + "/") or path.rstrip("/") == p):
                out["violations"].append({"key": f"backend-call-outside-own-prefix:{op}",
                                          "msg": f"{where}: session {i} ({plan['scripts'][i]}) made back end {op}({path}), its prefix is {p}",
                                          "replay_case": {"plans": [plan]}})
                break
        # interleaving measure
        conns = [c for (c, d_, k) in order]
        alternations = sum(1 for a, b in zip(conns, conns[1:]) if a != b)
        if alternations >= 4:
            out["sigs"].append(sig_of([plan["scripts"], order]))
        out.setdefault("sample", {"scripts": plan["scripts"], "users": plan["users"], "prefixes": plan["prefixes"],
                                  "network_events": len(order), "alternations_between_connections": alternations,
                                  "cut": plan.get("cut")})
    return out


def gen_cases(tier, seed):
    rng = random.Random(seed * 83 + 29)
    n = 150 if tier == "quick" else 4000
    plans = []
    for i in range(n):
        k = rng.choice([2, 2, 2, 3])
        scripts = [rng.choice(NAMES) for _ in range(k)]
        plan = {"seed": seed * 100003 + i, "scripts": scripts, "prefixes": [f"/s{j}" for j in range(k)],
                "users": [rng.choice(["anon", "anon", "alice"]) for _ in range(k)],
                "offsets": [round(rng.random() * 0.01, 4) for _ in range(k)],
                "lat": [rng.choice([0.0003, 0.001, 0.002, 0.005]) for _ in range(4)],
                "mss": [rng.choice([7, 64, 536, 1460, 1460]) for _ in range(3)],
                "backend_delay": rng.choice([None, [0, 0.0005], [0, 0, 0.003]])}
        for j, sname in enumerate(scripts):
            if sname in ("login_pw",):
                plan["users"][j] = "anon"
        r = rng.random()
        if r < 0.3:
            plan["cut"] = {"k": rng.randint(5, 80), "action": rng.choice(["rst", "fin", "ctrl-rst"]), "who": rng.randrange(k)}
        plans.append(plan)
    # the same stateful script in two or three sessions at once (pending rename, restart offset, cwd, passive state)
    for name in ("rename", "retr_rest", "stor_rest", "walk", "pasv_twice", "two_transfers", "relogin", "mlsd_dir"):
        for j in range(4 if tier == "quick" else 40):
            k = 2 if j % 3 else 3
            plans.append({"seed": seed * 977 + j, "scripts": [name] * k, "prefixes": [f"/s{x}" for x in range(k)],
                          "users": ["anon", "alice", "anon"][:k], "offsets": [round(rng.random() * 0.004, 4) for _ in range(k)],
                          "lat": [rng.choice([0.0005, 0.001, 0.0015, 0.002]) for _ in range(4)], "mss": [1460, 64, 1460],
                          "backend_delay": rng.choice([None, [0, 0.0007]])})
    # the same transfer kind in several sessions at once, every back-end call really suspending
    for name in ("list", "mlsd", "retr_pasv", "stor_pasv", "appe", "two_transfers"):
        for j in range(2 if tier == "quick" else 20):
            k = 2 + j % 2
            plans.append({"seed": seed * 3571 + j, "scripts": [name] * k, "prefixes": [f"/s{x}" for x in range(k)],
                          "users": ["anon", "alice", "anon"][:k], "offsets": [round(rng.random() * 0.002, 4) for _ in range(k)],
                          "lat": [rng.choice([0.0005, 0.001]) for _ in range(4)], "mss": [1460, 536, 1460],
                          "backend_delay": [0.0007, 0.0011]})
    # an account limited to two connections: a session that mistypes the password and leaves, then two real ones
    for j in range(6 if tier == "quick" else 60):
        scripts = [["login_bad_pw", "login_pw", "login_pw"], ["login_bad_pw", "login_bad_pw", "login_pw", "login_pw"],
                   ["login_pw", "login_bad_pw", "login_pw"], ["login_bad_pw", "walk", "login_pw", "login_pw"],
                   ["login_retry", "login_pw", "login_pw"], ["login_retry", "login_retry", "login_pw"]][j % 6]
        k = len(scripts)
        plans.append({"seed": seed * 271 + j, "limits": 2, "scripts": scripts, "prefixes": [f"/s{x}" for x in range(k)],
                      "users": ["alice" if sc != "walk" else "anon" for sc in scripts],
                      "offsets": [round(0.05 * x + rng.random() * 0.002, 4) for x in range(k)], "lat": [0.0005, 0.001, 0.001, 0.002],
                      "mss": [1460, 1460, 1460], "backend_delay": None})
    # the file-system back ends (one path-io object per session, each bound to its own connection)
    for j in range(6 if tier == "quick" else 120):
        k = 2 + j % 2
        plans.append({"seed": seed * 1319 + j, "backend": ["pathio", "async"][j % 2], "scripts": [rng.choice(["stor_pasv", "retr_pasv", "mlsd", "rename", "mkd_rmd", "walk", "appe", "dele"]) for _ in range(k)],
                      "prefixes": [f"/s{x}" for x in range(k)], "users": ["anon", "alice", "anon"][:k],
                      "offsets": [round(rng.random() * 0.003, 4) for _ in range(k)], "lat": [0.0005, 0.001, 0.001, 0.002], "mss": [1460, 536, 1460],
                      "backend_delay": None})
    # different users, different base directories, identical virtual paths
    base_ok = [nm for nm in NAMES if nm not in ("login_pw", "relogin")]
    for j in range(30 if tier == "quick" else 800):
        k = 2 if j % 4 else 3
        same = j % 3 == 0
        first = rng.choice(base_ok)
        plans.append({"seed": seed * 4567 + j, "bases": True, "perms": j % 2 == 1, "scripts": [first if same else rng.choice(base_ok) for _ in range(k)],
                      "prefixes": [""] * k, "users": ["u"] * k, "offsets": [round(rng.random() * 0.006, 4) for _ in range(k)],
                      "lat": [rng.choice([0.0005, 0.001, 0.002]) for _ in range(4)], "mss": [1460, 536, 64],
                      "backend_delay": rng.choice([None, [0, 0.0006]])})
    # prefixes whose names are textual prefixes of each other (/s1, /s10, /s1x): one session stays in its directory while the
    # other removes / renames directories whose names start the same way
    for j in range(8 if tier == "quick" else 120):
        k = 2 + j % 2
        pf = [["/s1", "/s10", "/s1x"], ["/s10", "/s1", "/s1-x"], ["/w", "/work", "/wo"]][j % 3][:k]
        plans.append({"seed": seed * 733 + j, "scripts": [["rename_root", "rmd_and_back"][j % 2]] + ["dwell"] * (k - 1), "prefixes": pf, "users": ["anon"] * k,
                      "offsets": [round(0.01 + rng.random() * 0.03, 4)] + [0.0] * (k - 1), "lat": [0.0005, 0.001, 0.001, 0.002], "mss": [1460, 1460, 1460],
                      "backend_delay": None})
    # accounts with differing permissions on one base directory, every script read-only or refused for its account
    ro = ["walk", "retr_pasv", "retr_epsv_after", "retr_rest", "list", "mlsd", "mlsd_dir", "mlst", "retr_missing"]
    denied = ["appe", "stor_rest", "retr_pasv", "mlst", "retr_rest"]     # for the restricted account (odd index)
    for j in range(16 if tier == "quick" else 400):
        k = 2 if j % 3 else 3
        plans.append({"seed": seed * 911 + j, "shared_base": True, "scripts": [rng.choice(denied + ro if i % 2 else ro) for i in range(k)],
                      "prefixes": [""] * k, "users": ["u"] * k,
                      "offsets": [round(rng.random() * 0.006, 4) for _ in range(k)] if j % 2 else [0.004 * (k - 1 - i) for i in range(k)],
                      "lat": [rng.choice([0.0005, 0.001, 0.002]) for _ in range(4)], "mss": [1460, 536, 64], "backend_delay": None})
    # aioftp's own client in several sessions of one process (shared class or module state shows here)
    for j in range(24 if tier == "quick" else 600):
        k = 2 if j % 3 else 3
        same = j % 2 == 0
        first = [rng.choice(CLIENT_OPS) for _ in range(rng.randint(2, 5))]
        plans.append({"clients": True, "seed": seed * 6007 + j, "prefixes": [f"/s{x}" for x in range(k)], "scripts": ["client"] * k,
                      "ops": [first if same else [rng.choice(CLIENT_OPS) for _ in range(rng.randint(2, 5))] for _ in range(k)],
                      "offsets": [round(rng.random() * 0.003, 4) for _ in range(k)], "gaps": [rng.choice([0, 0.0004, 0.001]) for _ in range(k)],
                      "backend_delay": rng.choice([None, [0, 0.0006], [0.0005]])})
    # every client operation in all sessions at once (what is shared between Client objects shows when the same code is at
    # work in two of them at the same moment)
    for k in (2, 3):
        for op in CLIENT_OPS:
            for gap in (0, 0.0004):
                plans.append({"clients": True, "seed": seed * 17 + k, "prefixes": [f"/s{x}" for x in range(k)], "scripts": ["client"] * k,
                              "ops": [[op, "list_recursive", op] for _ in range(k)], "offsets": [0.0] * k, "gaps": [gap] * k,
                              "backend_delay": [0, 0.0006] if gap else None})
    for ops in (["upload"], ["download", "upload"], ["list", "download"], ["cd", "list", "upload"]):
        plans.append({"clients": True, "two_lives": True, "seed": seed, "ops": ops, "prefixes": ["/s0"], "scripts": ["client"]})
    # the directory both sessions live in, listed slowly by one of them while the other works on top-level entries of its own
    for verb in ("MLSD", "LIST"):
        for other in (["RMD /0b_first"], ["DELE /0b_gone.txt", "MKD /0b_new"], ["RNFR /0b_first", "RNTO /zz_moved"], ["RMD /b_last"],
                      ["RMD /0b_first", "MKD /0b_first"]):
            for at in (0.3, 0.7):
                for backend in (("memory",) if tier == "quick" else ("memory", "pathio")):
                    plans.append({"parent_listing": True, "seed": seed, "verb": verb, "other": other, "at": at, "n": 40, "step_delay": 0.002,
                                  "backend": backend, "scripts": ["parent_listing"], "prefixes": ["/"], "users": ["anon"]})
    # refusals for different reasons in two sessions, each compared with its solo run in a fresh process
    for order in (["refused_nologin", "refused_loggedin"], ["refused_loggedin", "refused_nologin"]):
        plans.append({"seed": seed, "scripts": order, "prefixes": ["/s0", "/s1"], "users": ["anon", "anon"], "offsets": [0, 0.05],
                      "lat": [0.001], "mss": [1460], "backend_delay": None, "fresh_solo": True})
    per = 6
    return [{"plans": plans[i:i + per]} for i in range(0, len(plans), per)]


if __name__ == "__main__":
    import json as _json, sys as _sys
    if _sys.argv[1:2] == ["--solo"]:
        _plan, _i = _json.loads(_sys.argv[2]), int(_sys.argv[3])
        pin_clocks()

        async def _main(net, hyg):
            return await run_world(net, _plan, [_i])
        _res, _info = W.run(_main, seed=_plan["seed"], net_kwargs=dict(latency=0.001))
        if _res is None:
            print(_json.dumps({"error": str(_info)[:500]}))
            _sys.exit(2)
        print(_json.dumps({"transcript": _res[0][0]["transcript"], "downloads": _res[0][0]["downloads"], "tree": {k: ("hex:" + bytes(v).hex() if isinstance(v, (bytes, bytearray)) else v) for k, v in _res[1].items()}}))
