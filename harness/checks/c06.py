"""C06 - reply framing: what the server encodes is what the client decodes."""

import asyncio
import itertools
import random

from .. import boot  # noqa: F401
from ..runner import sig_of
import aioftp

PROPERTY = "C06"
LEVEL = "exploration"
RULE = ("(a) replies: code x line list (1..6 lines drawn from empty, digit-leading, header-looking '250-x'/'250 x', "
        "'-x', leading/inner blanks, non-ASCII, long) x {normal, list} mode x {utf-8, latin-1}, encoded by the real "
        "Server.write_response, split at every single cut and at seeded multi-cut positions, fed to a real "
        "asyncio.StreamReader and decoded twice by the real Client.parse_response (second reply = sentinel); (b) negative: "
        "terminating line with another code -> StatusCodeError, sentinel still decoded; (c) Code.matches/check_codes: "
        "codes x all masks of length 1..3 over [0-9x* ] against a digit-for-digit oracle (exhaustive in thorough); "
        "(d) command() wait/expect loop over reply sequences; (e) command line round trip client.command -> "
        "Server.parse_command.  distinct = distinct (code, lines, mode, encoding) items; non-trivial = more than one "
        "line or a line with a metacharacter.")
RULE += ("  " + "Also (round 8): the same Client object after a connection that died inside a reply decodes its next connection from scratch; the encoder leaves the caller's list of lines as it was (written twice: same bytes).")
RULE += ("  " + 'Also (round 10): a foreign code on an INNER continuation line with the right code on the closing line is rejected (negative_inner); Server.response_writer fed replies of which one cannot be encoded in line 1, 2 or 3 (latin-1, ascii, lone surrogate): every reply write_response completed is decoded as such, in order (writer_emitted_vs_decoded).')
RULE += ("  " + 'Also (round 11): lines with byte 255 in latin-1.')
ASSUMPTIONS = ["lines contain no CR/LF (not carriable); comparison of text is modulo trailing whitespace as the statement allows",
               "the negative case uses a *terminating* line with a different code (a mismatch in the middle leaves the "
               "rest of that reply in the stream by construction of the rejecting decoder)"]
REQUIRED_MONITORS = ["roundtrip", "negative", "matches", "command_loop", "command_line"]
ANCHOR_FUNCTIONS = ['server.py:Server.write_response', 'client.py:BaseClient.parse_response', 'client.py:Code.matches', 'server.py:Server.parse_command']
EXHAUSTIVE = {"quick": False, "thorough": False}

LINE_POOL = ["", "ok", "250-x", "250 x", "-x", " x", "  two", "a  b", "123", "1", "12 files", "226 done", "226-more", "²³¹ sup",
             "٣٣٣ arabic", "ünï", "aé x", "€ 12", "a€", "日本語", "a日本", "😀 astral", "x😀", "a\u2028b", "a\x85b", "a\x0bb", "a\x0cb", "a\x1cb",
             "x\u2029y", "\x1dlead", "x" * 300, "end.", "\ttab", "a\tb", "Type=dir; name", "250", "25", "9999", "- ", "=", "\"q\"",
             "a\xffb", "\xff\xff", "\xffz"]      # (byte 255 in latin-1: telnet's IAC, which FTP replies do not escape)
LATIN_OK = [s for s in LINE_POOL if all(ord(c) < 256 for c in s)]


class Sink:
    def __init__(self):
        self.data = bytearray()

    async def write(self, b):
        self.data += b


def rstrip_all(lines):
    return [x.rstrip() for x in lines]


class EncoderTouchedItsArgument(Exception):
    pass


async def encode(code, lines, mode, encoding):
    srv = aioftp.Server(encoding=encoding)
    sink = Sink()
    arg = list(lines) if len(lines) != 1 or mode else lines[0]
    await srv.write_response(sink, code, arg, mode)
    first = bytes(sink.data)
    if isinstance(arg, list):
        # the reply a caller gives is the caller's: written a second time it is the same reply
        if arg != list(lines):
            raise EncoderTouchedItsArgument(f"write_response({code!r}, {list(lines)!r}, {mode}) left its argument as {arg!r}")
        sink2 = Sink()
        await srv.write_response(sink2, code, arg, mode)
        if bytes(sink2.data) != first:
            raise EncoderTouchedItsArgument(f"write_response({code!r}, {list(lines)!r}, {mode}) twice: {first!r} then {bytes(sink2.data)!r}")
    return first


def make_client(reader, encoding):
    c = aioftp.Client(encoding=encoding, path_io_factory=aioftp.MemoryPathIO)

    class W:
        def close(self):
            pass

        def write(self, data):
            pass

        async def drain(self):
            pass
    c.stream = aioftp.StreamIO(reader, W())
    return c


async def decode_segments(wire, cuts, encoding, n_replies):
    reader = asyncio.StreamReader()
    c = make_client(reader, encoding)

    async def feeder():
        pos = 0
        for cut in list(cuts) + [len(wire)]:
            if cut > pos:
                reader.feed_data(wire[pos:cut])
                pos = cut
                await asyncio.sleep(0)
                await asyncio.sleep(0)
        reader.feed_eof()
    ft = asyncio.ensure_future(feeder())
    out = []
    for _ in range(n_replies):
        try:
            code, info = await asyncio.wait_for(c.parse_response(), 5)
            out.append((str(code), list(info)))
        except aioftp.StatusCodeError as e:
            out.append(("StatusCodeError", [str(x) for x in e.expected_codes], [str(x) for x in e.received_codes]))
        except Exception as e:
            out.append(("EXC", repr(e)))
    await ft
    return out


def expected_info(code, lines, mode):
    if mode:
        head, *body, tail = lines
        exp = ["-" + head] + [" " + b for b in body] + [" " + tail]
    else:
        *body, tail = lines
        exp = ["-" + b for b in body] + [" " + tail]
    return rstrip_all(exp)


def cut_sets(n, rng, tier):
    sets = [()]
    sets += [(i,) for i in range(1, n)]
    k = 40 if tier == "quick" else 200
    for _ in range(k):
        m = rng.choice([2, 2, 3, 5, 9])
        sets.append(tuple(sorted(rng.sample(range(1, n), min(m, n - 1)))) if n > 2 else ())
    sets.append(tuple(range(1, n)))  # byte by byte
    return sets


async def run_items(case):
    rng = random.Random(case["seed"])
    viol = []
    mon = {"roundtrip": 0, "negative": 0, "matches": 0, "command_loop": 0, "command_line": 0}
    sigs = set()
    sample = None
    tier = case["tier"]
    for item in case.get("items", []):
        code, lines, mode, enc = item
        if mode and len(lines) < 2:
            continue
        try:
            wire = await encode(code, lines, mode, enc)
        except EncoderTouchedItsArgument as e:
            viol.append({"key": f"encoder-consumes-the-callers-lines:{'list' if mode else 'normal'}", "msg": str(e),
                         "replay_case": dict(case, items=[item], masks=None, cmdlines=[], loops=0)})
            continue
        sent = await encode("299", ["sentinel"], False, enc)
        exp = expected_info(code, lines, mode)
        for cuts in cut_sets(len(wire), rng, tier):
            got = await decode_segments(wire + sent, cuts, enc, 2)
            mon["roundtrip"] += 1
            ok = (len(got) == 2 and got[0][0] == code and rstrip_all(got[0][1]) == exp
                  and got[1] == ("299", [" sentinel"]))
            if not ok:
                if len(got) >= 1 and got[0][0] == code and rstrip_all(got[0][1]) != exp:
                    key = "lines-differ"
                elif got and got[0][0] in ("StatusCodeError", "EXC"):
                    key = "valid-reply-rejected"
                elif got and got[0][0] != code:
                    key = "code-differs"
                else:
                    key = "next-reply-desynchronised"
                viol.append({"key": f"{key}:{'list' if mode else 'normal'}",
                             "msg": f"code {code} lines {lines!r} list={mode} {enc} cuts {cuts[:6]}: decoded {got!r}, expected ({code}, {exp!r}) then sentinel",
                             "replay_case": dict(case, items=[item], masks=None, cmdlines=[], loops=0)})
                break
        if len(lines) >= 2 and not viol:
            # the same Client object after a connection that died inside a reply: its next connection starts from scratch
            cutpos = rng.choice([m_.end() for m_ in __import__("re").finditer(b"\r\n", wire)][:-1] or [len(wire) // 2])
            c = make_client(asyncio.StreamReader(), enc)
            c.stream.reader.feed_data(wire[:cutpos])
            c.stream.reader.feed_eof()
            try:
                await asyncio.wait_for(c.parse_response(), 5)
            except Exception:
                pass
            r2 = asyncio.StreamReader()
            w_ = c.stream.writer
            c.stream = aioftp.StreamIO(r2, w_)
            r2.feed_data(wire + sent)
            r2.feed_eof()
            got = []
            for _ in range(2):
                try:
                    code_, info_ = await asyncio.wait_for(c.parse_response(), 5)
                    got.append((str(code_), list(info_)))
                except Exception as e_:
                    got.append(("EXC", repr(e_)))
            mon["reused_client"] = mon.get("reused_client", 0) + 1
            if not (len(got) == 2 and got[0][0] == code and rstrip_all(got[0][1]) == exp and got[1] == ("299", [" sentinel"])):
                viol.append({"key": f"reply-decoded-differently-after-reconnect:{'list' if mode else 'normal'}",
                             "msg": f"a Client whose earlier connection ended after {wire[:cutpos]!r} decodes the replies of its next connection "
                                    f"({code} {lines!r}, then the sentinel) as {got!r}",
                             "replay_case": dict(case, items=[item], masks=None, cmdlines=[], loops=0)})
        sigs.add(sig_of(item))
        if sample is None and len(lines) > 2:
            sample = {"code": code, "lines": lines, "list": mode, "encoding": enc, "wire": wire.decode(enc)[:200], "decoded_info": exp}
        # negative: terminating line carries another code
        if len(lines) >= 2:
            other = "%03d" % ((int(code) + 1) % 1000)
            srv_lines = wire.decode(enc).split("\r\n")[:-1]
            bad = srv_lines[:-1] + [other + srv_lines[-1][3:]]
            bwire = ("\r\n".join(bad) + "\r\n").encode(enc)
            got = await decode_segments(bwire + sent, rng.choice(cut_sets(len(bwire), rng, "quick")), enc, 2)
            mon["negative"] += 1
            if not (got[0][0] == "StatusCodeError" and got[1] == ("299", [" sentinel"])):
                viol.append({"key": "mismatched-terminator-not-rejected" if got[0][0] != "StatusCodeError" else "desync-after-rejection",
                             "msg": f"reply {bad!r}: decoded {got!r}",
                             "replay_case": dict(case, items=[item], masks=None, cmdlines=[], loops=0)})
        # negative: a continuation line in the middle carries another code, the closing line the right one again: rejected, not
        # returned as one reply (what the rest of the stream is taken for after such a rejection is not judged: a decoder that
        # rejects at first sight leaves the tail of the rejected reply behind, see DESIGN 7)
        if len(lines) >= 3 and not mode:
            other = "%03d" % ((int(code) + 1) % 1000)
            srv_lines = wire.decode(enc).split("\r\n")[:-1]
            k = 1 + (len(lines) + int(code)) % (len(srv_lines) - 2) if len(srv_lines) > 3 else 1
            bad = srv_lines[:k] + [other + srv_lines[k][3:]] + srv_lines[k + 1:]
            bwire = ("\r\n".join(bad) + "\r\n").encode(enc)
            got = await decode_segments(bwire, rng.choice(cut_sets(len(bwire), rng, "quick")), enc, 1)
            mon["negative_inner"] = mon.get("negative_inner", 0) + 1
            if not (got and got[0][0] == "StatusCodeError"):
                viol.append({"key": "mismatched-inner-line-not-rejected", "msg": f"reply {bad!r}: decoded {got!r}",
                             "replay_case": dict(case, items=[item], masks=None, cmdlines=[], loops=0)})
    # the reply writer of a session: whatever it has written completely is what the client decodes, in that order - also when a
    # reply in between cannot be encoded (a name from the file system outside the control connection's encoding)
    for wplan in case.get("writers", []):
        enc, replies = wplan["encoding"], wplan["replies"]
        srv = aioftp.Server(encoding=enc)
        sink = Sink()
        done_calls = []
        orig_wr = srv.write_response

        async def recording(stream, code, lines="", list=False, _orig=orig_wr):
            await _orig(stream, code, lines, list)
            done_calls.append((code, [lines] if isinstance(lines, str) else [*lines], bool(list)))
        srv.write_response = recording
        q = asyncio.Queue()
        for code, lines, mode in replies:
            q.put_nowait((code, lines if len(lines) != 1 else lines[0], mode))
        wt = asyncio.ensure_future(srv.response_writer(sink, q))
        for _ in range(200):
            await asyncio.sleep(0)
            if wt.done() or q.empty():
                break
        for _ in range(20):
            await asyncio.sleep(0)
        if not wt.done():
            wt.cancel()
        try:
            await wt
        except BaseException:
            pass
        got = await decode_segments(bytes(sink.data), (), enc, len(done_calls) + 1)
        mon["writer_emitted_vs_decoded"] = mon.get("writer_emitted_vs_decoded", 0) + 1
        for i, (code, lines, mode) in enumerate(done_calls):
            exp = expected_info(code, lines, mode)
            if not (i < len(got) and got[i][0] == code and rstrip_all(got[i][1]) == exp):
                viol.append({"key": "written-reply-not-decoded",
                             "msg": f"{enc} reply writer given {replies!r}: wrote {bytes(sink.data)!r}; write_response completed for "
                                    f"{done_calls!r}, the client decodes {got!r}",
                             "replay_case": dict(case, items=[], masks=None, cmdlines=[], loops=0, writers=[wplan])})
                break
        sigs.add(sig_of(["writer", wplan]))
    # Code.matches / check_codes
    if case.get("masks"):
        alphabet = "0123456789x* "
        masks = ["".join(t) for n in (1, 2, 3) for t in itertools.product(alphabet, repeat=n)]
        c0 = aioftp.Client(path_io_factory=aioftp.MemoryPathIO)
        for code in case["masks"]:
            C = aioftp.Code(code)
            for mask in masks:
                want = all((not (m in "0123456789")) or m == c for m, c in zip(mask, code))
                got = C.matches(mask)
                mon["matches"] += 1
                if bool(got) != want:
                    viol.append({"key": "matches-wrong", "msg": f"Code({code!r}).matches({mask!r}) = {got}, oracle {want}"})
                    break
            for exp_codes in (("2xx",), ("1xx", code), ("5" + code[1:],), (code[:2] + "x", "999")):
                want = any(all((not m.isdigit()) or m == c for m, c in zip(mask, code)) for mask in exp_codes)
                try:
                    c0.check_codes(exp_codes, C, ["i"])
                    got = True
                except aioftp.StatusCodeError:
                    got = False
                mon["matches"] += 1
                if got != want:
                    viol.append({"key": "check_codes-wrong", "msg": f"check_codes({exp_codes}, {code}) accepted={got}, oracle {want}"})
        sigs.add(sig_of(["masks", case["masks"][:3]]))
    # command(): wait/expect loop
    for _ in range(case.get("loops", 0)):
        nmarks = rng.randint(0, 3)
        marks = ["1%02d" % rng.randint(0, 99) for _ in range(nmarks)]
        final = "%03d" % rng.choice([200, 226, 250, 257, 331, 350, 421, 425, 426, 451, 500, 502, 550, 299, 120])
        wait = rng.choice([("1xx",), (), ("1xx", "120"), ("15x",)])
        expect = rng.choice([("2xx",), ("226", "250"), (), ("x5x",), ("2xx", "33x")])
        if not wait and not expect:
            continue
        wire = b"".join([await encode(m, ["mark"], False, "utf-8") for m in marks]) + await encode(final, ["a", "b"], False, "utf-8")
        reader = asyncio.StreamReader()
        reader.feed_data(wire)
        reader.feed_eof()
        c = make_client(reader, "utf-8")

        def match(code, masks):
            return any(all((not m.isdigit()) or m == ch for m, ch in zip(mask, code)) for mask in masks)
        seq = marks + [final]
        i = 0
        while i < len(seq) - 1 and match(seq[i], wait):
            i += 1
        if match(seq[i], wait) and i == len(seq) - 1:
            want = ("EOF",)
        elif expect and not match(seq[i], expect):
            want = ("SCE", seq[i])
        else:
            want = ("OK", seq[i])
        try:
            code, info = await asyncio.wait_for(c.command(None, expect, wait), 5)
            got = ("OK", str(code))
        except aioftp.StatusCodeError as e:
            got = ("SCE", str(e.received_codes[-1]))
        except ConnectionResetError:
            got = ("EOF",)
        mon["command_loop"] += 1
        if got != want:
            viol.append({"key": "command-loop-wrong", "msg": f"replies {seq} wait={wait} expect={expect}: command() gave {got}, oracle {want}"})
    # command line: client.command -> server.parse_command
    for verb, arg in case.get("cmdlines", []):
        sink = Sink()
        reader0 = asyncio.StreamReader()
        c = make_client(reader0, "utf-8")

        class WW:
            def write(self, d):
                sink.data.extend(d)

            async def drain(self):
                pass

            def close(self):
                pass
        c.stream = aioftp.StreamIO(reader0, WW())
        line = verb + ((" " + arg) if arg is not None else "")
        await c.command(line)
        wire = bytes(sink.data)
        srv = aioftp.Server()
        for cuts in cut_sets(len(wire), rng, "quick")[:12]:
            reader = asyncio.StreamReader()
            st = aioftp.StreamIO(reader, None)
            pos = 0
            task = asyncio.ensure_future(srv.parse_command(st))
            for cut in list(cuts) + [len(wire)]:
                reader.feed_data(wire[pos:cut])
                pos = cut
                await asyncio.sleep(0)
            cmd, rest = await asyncio.wait_for(task, 5)
            mon["command_line"] += 1
            want_rest = (arg or "").rstrip() if verb.rstrip() == verb and " " not in verb else None
            if cmd != verb.lower() or (want_rest is not None and rest != want_rest):
                viol.append({"key": "command-line-differs", "msg": f"client sent {line!r}: server parsed ({cmd!r}, {rest!r})"})
                break
        sigs.add(sig_of(["cmd", verb, arg]))
    return {"violations": viol, "monitors": mon, "sigs": sorted(sigs), "sample": sample}


def run_case(case):
    loop = asyncio.new_event_loop()
    try:
        return loop.run_until_complete(run_items(case))
    except EncoderTouchedItsArgument as e:
        return {"violations": [{"key": "encoder-consumes-the-callers-lines", "msg": str(e)}], "monitors": {"roundtrip": 1}, "sigs": []}
    finally:
        loop.close()


def gen_cases(tier, seed):
    rng = random.Random(seed * 17 + 3)
    codes_all = ["%03d" % i for i in range(1000)]
    codes = rng.sample(codes_all, 60) if tier == "quick" else codes_all
    items = []
    n_items = 700 if tier == "quick" else 60000
    for i in range(n_items):
        enc = "utf-8" if i % 3 else "latin-1"
        pool = LINE_POOL if enc == "utf-8" else LATIN_OK
        n = rng.choice([1, 1, 2, 2, 3, 3, 4, 6])
        lines = [rng.choice(pool) for _ in range(n)]
        mode = bool(n >= 2 and rng.random() < 0.5)
        items.append([rng.choice(codes), lines, mode, enc])
    # systematic small ones: every pool line alone, in each position of a 3-line reply, both modes
    for ln in LINE_POOL:
        items.append(["250", [ln], False, "utf-8"])
        for pos in range(3):
            L = ["first", "mid", "last"]
            L[pos] = ln
            items.append(["226", L, False, "utf-8"])
            items.append(["211", L, True, "utf-8"])
    verbs = ["PWD", "cwd", "CwD", "MKD", "STOR", "PASS", "RNFR", "X"]
    args = [None, "", "a", " lead", "two  blanks", "trail ", "ünï/ß", "a b c", "-x", "\"q\"", "x" * 200, "tab\tin"]
    cmdlines = [[v, a] for v in verbs for a in args]
    writers = []
    for enc, badch in (("latin-1", "\u20acuro"), ("latin-1", "\u044e"), ("ascii", "caf\u00e9"), ("utf-8", "lone\udc80surrogate")):
        for pos in (0, 1, 2):
            for mode in (False, True):
                L = ["start", "middle", "end"]
                L[pos] = badch
                writers.append({"encoding": enc, "replies": [["220", ["hi"], False], ["250", L, mode], ["257", ["\"/\""], False], ["200", ["ok"], False]]})
        writers.append({"encoding": enc, "replies": [["220", ["hi"], False], ["257", [badch], False], ["200", ["ok"], False]]})
    cases = []
    per = 40
    chunks = [items[i:i + per] for i in range(0, len(items), per)]
    mchunks = [codes[i:i + 25] for i in range(0, len(codes), 25)]
    for i in range(max(len(chunks), len(mchunks))):
        cases.append({"seed": seed * 1000 + i, "tier": tier,
                      "items": chunks[i] if i < len(chunks) else [],
                      "masks": mchunks[i] if i < len(mchunks) else None,
                      "loops": 60 if tier == "quick" else 1200,
                      "cmdlines": cmdlines[i::max(len(chunks), len(mchunks))],
                      "writers": writers if i == 0 else []})
    return cases
