"""C14 - ABOR at any moment stops the transfer, is answered, keeps the session usable."""

import asyncio
import random

from .. import boot  # noqa: F401
from .. import world as W
from ..corpus import payload_bytes
from ..rawpeer import RawPeer
from ..runner import sig_of, rearm
from ..spyfs import DIR
import aioftp

PROPERTY = "C14"
LEVEL = "fault_enumeration"
RULE = ("for each transfer kind {RETR, STOR, APPE, LIST, MLSD} x file size around block multiples x data-connection "
        "timing {before the command, after the 150 mark, never} x passive command: ABOR is written on the control "
        "channel right after network event k (optionally i loop iterations later, zero latency) for every k from the "
        "transfer command to the end of the fault-free run, plus after completion and with no transfer at all; then a "
        "follow-up {PWD + complete transfer, PASV + LIST, QUIT}.  Second driver: aioftp's own Client aborts (Client.abort) a "
        "400 kB download / upload after 0..7 blocks and goes on (list, download, upload, PWD, QUIT on the same client).  distinct = distinct (kind, position, reply sequence, "
        "bytes moved) signatures; every sub-run sends an ABOR, so all are non-trivial.")
RULE += ("  " + "Also: a back end that acknowledges writes late; wait_future_timeout=None; the executor back end; the next transfer on the same listener; aioftp's own Client.abort().")
RULE += ("  " + 'Also (round 7): ABOR while the worker sleeps behind a speed limit; a second ABOR and / or PWD written in one piece with the ABOR (answered after it, in order; executor jobs and back-end calls with a duration).')
RULE += ("  " + 'Also (round 8): USER for a password account right before the ABOR (the session is logged out, the ABOR still stops and answers); stalled download with socket_timeout, ABOR positions up to the stall.')
RULE += ("  " + 'Also (round 9): storage writes that take their time (the write that is in progress when ABOR is confirmed); the file is compared at the moment the 226 of ABOR arrives and again later (it must not move).')
RULE += ("  " + 'Also (round 11): USER for an unknown name (530, no anonymous fall-back) right before the ABOR.')
ASSUMPTIONS = [
    "in-memory network model; the peer is a raw FTP client, not aioftp's",
    "reply shapes accepted: [1xx, C, 226] with C in {2xx, 425, 426, 451} or [4xx/5xx, 226]; anything else, a missing or "
    "an extra reply is a violation",
]
REQUIRED_MONITORS = ["reply_sequence", "data_eof", "prefix", "followup", "silence", "client_abort"]
ANCHOR_FUNCTIONS = ['server.py:Server.abor', 'server.py:worker.<locals>.wrapper']
EXHAUSTIVE = {"quick": True, "thorough": True}
WALL_BUDGET = {"quick": 900, "thorough": 7200}

OLD = b"OLD-CONTENT-" * 3


async def execute(net, hyg, plan):
    verb = plan["verb"]
    size = plan["size"]
    bs = plan.get("block_size", 8192)
    content = payload_bytes(size, 5)
    tree = {"/d": DIR, "/d/a": b"aaa", "/d/b": b"bb", "/f.bin": content, "/small.txt": b"0123456789", "/old.bin": OLD}
    for i in range(plan.get("dir_entries", 0)):
        tree[f"/d/e{i:03d}"] = b"x" * i
    w = W.World(net, tree=tree, block_size=bs, backend=plan.get("backend", "memory"),
                **({"users": lambda base: [aioftp.User("anonymous" if plan.get("no_fallback") else None, base_path=base),
                                           aioftp.User("alice", "secret", base_path=base)]} if plan.get("before_abor") else {}),
                **(plan.get("server_kwargs") or {}))
    net.loop.exec_delay = plan.get("exec_delay", 0.0)
    await w.start()
    try:
        bd = plan.get("backend_delay")
        if bd:
            rng = random.Random(plan.get("seed", 0))
            w.ctl.delay = lambda op, path, n: rng.choice(bd)
        if plan.get("slow_write"):
            # only storing a block takes time (close, seek, open are prompt)
            w.ctl.delay = lambda op, path, n: plan["slow_write"] if op == "write" else 0
        if plan.get("write_ack_delay"):
            w.ctl.delay_after = lambda op, path, n: plan["write_ack_delay"]
        p = RawPeer(net, 2121)
        await p.connect()
        await p.cmd("USER anonymous")
        await p.cmd("TYPE I")
        pas = plan.get("passive", "EPSV")
        r = await p.cmd(pas)
        port = p.parse_pasv(r)[1] if pas == "PASV" else p.parse_epsv(r)
        mode = plan.get("connect", "before")
        upload = verb in ("STOR", "APPE")
        target = {"RETR": "/f.bin", "STOR": "/new.bin", "APPE": "/old.bin", "LIST": "/d", "MLSD": "/d"}[verb]
        if plan.get("target"):
            target = plan["target"]
        data = {"conn": None, "got": b"", "status": None, "sent": 0}
        if mode == "before" and not plan.get("no_transfer"):
            data["conn"] = await p.open_data(port)
        replies = []
        stop = asyncio.Event()
        state = {"abor_sent": False, "abor_at": None, "k0": None}

        async def collector():
            while True:
                r = await p.read_reply(wait=4.0)
                if r is None:
                    if stop.is_set():
                        return
                    continue
                if r == "EOF":
                    replies.append("EOF")
                    return
                replies.append(r.code)
                if r.code == "226" and state["abor_sent"] and upload and "at_226" not in state:
                    # what the back end holds at the moment the peer is told "abort successful"
                    cur = w.tree().get(target)
                    state["at_226"] = len(cur) if isinstance(cur, (bytes, bytearray)) else None

        async def data_task():
            if mode == "never":
                return
            if mode == "after":
                for _ in range(4000):
                    if any(c.startswith("1") for c in replies if c != "EOF"):
                        break
                    await asyncio.sleep(net.latency)
                else:
                    return
                if state["abor_sent"]:
                    return  # a client that has already aborted does not open the data connection any more
                try:
                    data["conn"] = await p.open_data(port)
                except OSError:
                    data["status"] = "refused"
                    return
            dr, dw = data["conn"]
            if upload:
                payload = payload_bytes(size, 9)
                chunk = plan.get("chunk", 4096)
                try:
                    for i in range(0, len(payload), chunk):
                        dw.write(payload[i:i + chunk])
                        await asyncio.wait_for(dw.drain(), 20)
                        data["sent"] = min(len(payload), i + chunk)
                        await asyncio.sleep(plan.get("chunk_gap", 0.0005))
                    dw.close()
                    # a well-behaved uploader waits for the server to finish, too
                    got, st = await p.read_data(dr, wait=8.0)
                    data["status"] = "sent:" + st
                except (ConnectionError, asyncio.TimeoutError) as e:
                    data["status"] = "send-failed:" + type(e).__name__
            else:
                got, st = await p.read_data(dr, wait=8.0, limit=plan.get("stall_after"))
                data["got"], data["status"] = got, st
                if st == "limit" and state.get("k0") is not None:
                    state["stall_event"] = len(net.events) - state["k0"]
                if st != "limit":
                    dw.close()
                # status "limit": the peer stops reading and keeps the socket open (stalled download)

        def send_abor():
            if not state["abor_sent"]:
                state["abor_sent"] = True
                state["abor_at"] = len(net.events)
                # plan["tail"]: further commands written in the same piece as the ABOR (a second ABOR, a PWD)
                # plan["before_abor"]: commands sent right before it (USER for an account with a password: the session is not
                # logged in any more when the ABOR arrives - it is the session's own transfer all the same)
                p.send("\r\n".join(list(plan.get("before_abor", [])) + ["ABOR"] + list(plan.get("tail", []))))

        def chain(i, fn):
            if i <= 0:
                fn()
            else:
                net.loop.call_soon(chain, i - 1, fn)

        k = plan.get("k")
        if plan.get("no_transfer"):
            coll = asyncio.ensure_future(collector())
            send_abor()
        else:
            state["k0"] = len(net.events)

            def on_event(idx, conn, direction, kind, nbytes):
                if (state["abor_sent"] and state.get("abor_arrival") is None and conn is p.conn and direction == "c2s"
                        and kind == "DATA" and not conn.c2s.sendbuf and not conn.c2s.flight):
                    state["abor_arrival"] = net.loop.time()
                if k is not None and not state["abor_sent"] and idx - state["k0"] == k:
                    chain(plan.get("iters", 0), send_abor)
            net.on_event = on_event
            coll = asyncio.ensure_future(collector())
            dt = asyncio.ensure_future(data_task())
            p.send(f"{verb} {target}")
            if k is not None and k < 0:
                send_abor()  # back to back with the transfer command
            await asyncio.wait([dt], timeout=40)
            await net.settle()
            # let wait_future_timeout (1 s) and any completion pass
            await asyncio.sleep(2.5)
            nevents = len(net.events) - state["k0"]
            net.on_event = None
            if not state["abor_sent"]:
                send_abor()      # position "after completion"
                state["late"] = True
                state["abor_arrival"] = net.loop.time() + 1.0
        await net.settle()
        await asyncio.sleep(2.0)
        await net.settle()
        stop.set()
        await asyncio.wait([coll], timeout=10)
        seq = list(replies)
        viol = []
        mon = {"reply_sequence": 1, "data_eof": 0, "prefix": 0, "followup": 0, "silence": 0}
        pos = "no-transfer" if plan.get("no_transfer") else f"{verb}/connect-{mode}"
        marks = [c for c in seq if c != "EOF" and c.startswith("1")]

        def shape_ok(seq):
            if plan.get("no_transfer"):
                return seq == ["226"]
            if len(seq) == 3 and seq[0].startswith("1") and seq[2] == "226":
                return seq[1].startswith("2") or seq[1] in ("425", "426", "451")
            if len(seq) == 2 and seq[0][0] in "45" and seq[1] == "226":
                return True
            return False

        if plan.get("before_abor"):
            # the replies to the commands in front of the ABOR (331 for USER alice) come first, before or after the 150
            for code_ in [("530" if x.endswith("nobody-there") else "331") for x in plan["before_abor"]]:
                if code_ in seq:
                    seq.remove(code_)
                else:
                    viol.append({"key": "command-before-abor-unanswered", "msg": f"{pos}: {plan['before_abor']} then ABOR: replies {seq}"})
        tail_codes = [{"ABOR": "226", "PWD": "257", "NOOP": "502"}[t] for t in plan.get("tail", [])]
        if tail_codes:
            # every command behind the ABOR is answered after it, in the order sent; a second ABOR finds nothing left to abort
            mon["tail_in_order"] = 1
            if seq[len(seq) - len(tail_codes):] == tail_codes and len(seq) > len(tail_codes):
                seq = seq[:len(seq) - len(tail_codes)]
            elif "EOF" not in seq:
                viol.append({"key": "commands-behind-abor-not-answered-in-order:" + "+".join(plan["tail"]),
                             "msg": f"{pos} 'ABOR' + {plan['tail']} written in one piece after event {k}: replies after the transfer "
                                    f"command were {seq}, the last {len(tail_codes)} should be {tail_codes}"})
                seq = [c for c in seq]
        phase = "idle"
        if not plan.get("no_transfer"):
            if state.get("late"):
                phase = "after-completion"
            elif data["conn"] is None or (mode == "after" and data["status"] is None and not data["sent"] and not data["got"]):
                phase = "before-data-connection"
            else:
                phase = "during-transfer"
        if not shape_ok(seq):
            if "EOF" in seq:
                sym = "session-dropped"
            elif len(seq) == 3 and seq[0] == "226" and seq[1].startswith("1"):
                sym = "abor-answered-before-transfer-started"
            elif len([c for c in seq if c == "226"]) == 0 or (len(seq) >= 1 and seq[-1] != "226"):
                sym = "abor-unanswered"
            elif len(seq) > 3:
                sym = "extra-replies"
            else:
                sym = "bad-reply-sequence"
            key = sym if sym == "abor-answered-before-transfer-started" else f"{sym}:{phase}"
            viol.append({"key": key, "msg": f"{pos} ABOR after event {k}: replies after the transfer command were {seq}"})
        # the transfer's data connection (accepted before the ABOR reached the server) must be finished
        arrival = state.get("abor_arrival")
        for t in net.transports:
            if t.side == "accept" and t.conn.port != 2121 and (arrival is None or t.created_at < arrival - 1e-9):
                mon["data_eof"] += 1
                stalled_peer = (t.state == "closing" and t.conn.client.state == "open" and t.out.sendbuf
                                and t.conn.client.held_bytes)
                if t.state != "closed" and not stalled_peer:
                    viol.append({"key": f"data-channel-left-open:{phase}",
                                 "msg": f"{pos} ABOR after event {k}: server-side data connection c{t.conn.id} (accepted at "
                                        f"{t.created_at:.4f}, ABOR arrived {arrival}) is still {t.state}; peer status "
                                        f"{data['status']!r}"})
        # prefix property
        tree_now = w.tree()
        interrupted = len(seq) >= 2 and seq[1] == "426"
        completed = len(seq) >= 2 and seq[1].startswith("2") and seq[0].startswith("1")
        mon["prefix"] += 1
        if verb == "RETR" and not plan.get("no_transfer"):
            if content[:len(data["got"])] != data["got"]:
                viol.append({"key": "download-not-a-prefix", "msg": f"{pos}: received {len(data['got'])} bytes that are not a prefix"})
            if completed and data["conn"] is not None and data["got"] != content:
                viol.append({"key": "completed-but-truncated", "msg": f"{pos}: completion 2xx but {len(data['got'])}/{len(content)} bytes"})
        if upload and not plan.get("no_transfer") and interrupted and state.get("at_226") is not None:
            mon["frozen_after_abort"] = 1
            cur = tree_now.get(target)
            cur_n = len(cur) if isinstance(cur, (bytes, bytearray)) else None
            if cur_n != state["at_226"]:
                viol.append({"key": "upload-goes-on-after-abort-confirmed",
                             "msg": f"{pos} ABOR after event {k}: the file held {state['at_226']} bytes when 226 was sent and {cur_n} bytes a few seconds later"})
        if upload and not plan.get("no_transfer"):
            payload = payload_bytes(size, 9)
            stored = tree_now.get(target)
            base = OLD if verb == "APPE" else b""
            if stored is not None and stored != DIR:
                if not (stored.startswith(base) and payload.startswith(stored[len(base):])):
                    viol.append({"key": "upload-not-a-prefix", "msg": f"{pos}: stored {len(stored)} bytes are not old+prefix of payload"})
                if completed and data["status"] and data["status"].startswith("sent") and stored != base + payload:
                    viol.append({"key": "completed-but-truncated", "msg": f"{pos}: completion 2xx but stored {len(stored)} of {len(base + payload)}"})
        # follow-up on the same session
        mon["followup"] += 1
        fu = plan.get("followup", "pwd+retr")
        if "EOF" not in seq:
            if fu == "quit":
                r = await p.cmd("QUIT", wait=5)
                if r in (None, "EOF") or r.code != "221":
                    viol.append({"key": f"followup-failed:{phase}", "msg": f"{pos}: QUIT after ABOR answered {r}"})
            else:
                r = await p.cmd("PWD", wait=5)
                if r in (None, "EOF") or r.code != "257":
                    viol.append({"key": f"followup-failed:{phase}", "msg": f"{pos}: PWD after ABOR answered {r}"})
                else:
                    pas2 = "PASV" if fu == "pasv+list" else "EPSV"
                    if fu == "reuse+retr":
                        # the passive listener of the aborted transfer serves the next one (no new PASV/EPSV)
                        ok, port2 = True, port
                    else:
                        r = await p.cmd(pas2, wait=5)
                        ok = r not in (None, "EOF") and r.code in ("227", "229")
                    got = None
                    if ok:
                        if fu != "reuse+retr":
                            port2 = p.parse_pasv(r)[1] if pas2 == "PASV" else p.parse_epsv(r)
                        try:
                            dr, dw = await p.open_data(port2)
                            cmd2 = "LIST /d" if fu == "pasv+list" else "RETR /small.txt"
                            r1 = await p.cmd(cmd2, wait=5)
                            got, st = await p.read_data(dr, wait=5)
                            dw.close()
                            r2 = await p.read_reply(wait=5)
                            codes = [x.code if x not in (None, "EOF") else x for x in (r1, r2)]
                            if codes != ["150", "226"] or st != "eof" or (fu != "pasv+list" and got != b"0123456789"):
                                ok = False
                                got = (codes, st, got[:20] if got else got)
                        except OSError as e:
                            ok, got = False, repr(e)
                    if not ok:
                        viol.append({"key": f"followup-failed:{phase}",
                                     "msg": f"{pos}: a complete transfer after ABOR failed: {r} {got}"})
            mon["silence"] += 1
            quiet, buf = await p.silent()
            if not quiet:
                viol.append({"key": f"unsolicited-reply:{phase}", "msg": f"{pos}: unsolicited bytes after follow-up: {buf[:80]!r}"})
        p.cut("fin")
        await w.stop()
        return {"violations": viol, "monitors": mon,
                "nevents": nevents if not plan.get("no_transfer") else 0, "stall_event": state.get("stall_event"),
                "sig": sig_of([verb, mode, size, seq, len(data["got"]), data["sent"], phase]),
                "seq": seq, "phase": phase, "moved": len(data["got"]) or data["sent"]}
    finally:
        w.cleanup()


async def execute_client(net, hyg, plan):
    """aioftp's own client as the driver: Client.abort() in the middle of a transfer that cannot have completed (file larger
    than every buffer on the way), then ordinary use of the same client."""
    import aioftp
    size = plan["size"]
    content = payload_bytes(size, 5)
    w = W.World(net, tree={"/big.bin": content, "/small.txt": b"0123456789", "/old.bin": OLD})
    await w.start()
    viol = []
    mon = {"client_abort": 1, "followup": 0, "prefix": 0}
    where = f"client plan {plan}"
    try:
        async def scenario():
            c = aioftp.Client(path_io_factory=aioftp.MemoryPathIO, passive_commands=(plan.get("passive", "epsv"),))
            await c.connect("127.0.0.1", 2121)
            await c.login()
            got = b""
            if plan["direction"] == "download":
                stream = await c.download_stream("/big.bin", offset=plan.get("offset", 0))
                for _ in range(plan["blocks"]):
                    got += await stream.read(plan["block"])
                await c.abort(wait=True)
                stream.close()
                mon["prefix"] += 1
                if not content[plan.get("offset", 0):].startswith(got):
                    viol.append({"key": "client-abort:not-a-prefix", "msg": f"{where}: {len(got)} bytes read before abort are no prefix"})
            else:
                stream = await c.upload_stream("/up.bin")
                for i in range(plan["blocks"]):
                    await stream.write(content[i * plan["block"]:(i + 1) * plan["block"]])
                await asyncio.sleep(plan.get("settle", 0.05))
                await c.abort(wait=True)
                stream.close()
            # the same client keeps working
            names = sorted(str(p) for p, _ in await c.list("/"))
            small = b""
            async with c.download_stream("/small.txt") as s2:
                async for b in s2.iter_by_block(4):
                    small += b
            async with c.upload_stream("/after.bin") as s3:
                await s3.write(b"after")
            pwd = await c.get_current_directory()
            await c.quit()
            return names, small, str(pwd)
        t = asyncio.ensure_future(scenario())
        done, pending = await asyncio.wait([t], timeout=120)
        if pending:
            t.cancel()
            viol.append({"key": "client-abort:hangs", "msg": f"{where}: abort + follow-up did not finish within 120 virtual s"})
        else:
            try:
                names, small, pwd = t.result()
                mon["followup"] += 1
                tree = w.tree()
                if small != b"0123456789" or pwd != "/" or tree.get("/after.bin") != b"after" or "/small.txt" not in names:
                    viol.append({"key": "client-abort:followup-wrong",
                                 "msg": f"{where}: listing {names}, small {small!r}, pwd {pwd}, after.bin {tree.get('/after.bin')!r}"})
                if plan["direction"] == "upload":
                    mon["prefix"] += 1
                    stored = tree.get("/up.bin")
                    if stored is not None and not content.startswith(stored):
                        viol.append({"key": "client-abort:not-a-prefix", "msg": f"{where}: stored {len(stored)} bytes are no prefix"})
            except Exception as e:
                viol.append({"key": f"client-abort:raises-{type(e).__name__}", "msg": f"{where}: {e!r}"})
        await net.quiesce(2.0)
        for leak in w.leaks():
            viol.append({"key": "client-abort:leak", "msg": f"{where}: {leak}"})
        await w.stop()
        return {"violations": viol, "monitors": mon, "sig": sig_of(plan), "nevents": len(net.events), "phase": "client", "seq": None}
    finally:
        w.cleanup()


def run_plan(plan):
    rearm()
    async def main(net, hyg):
        return await (execute_client if plan.get("client") else execute)(net, hyg, plan)
    res, info = W.run(main, seed=plan.get("seed", 0),
                      net_kwargs=dict(mss=plan.get("mss", 1460), latency=plan.get("latency", 0.001)))
    if res is None:
        return W.failed(info)
    le = [e for e in info["hygiene"].serious_loop_errors()]
    if le:
        res["violations"].append({"key": "exception-reached-loop", "msg": f"{le[:2]}"})
    # the session lives on after an abort: a task of it that fails later with nobody looking (a write that went on after the
    # worker was cancelled, say) is something the abort left behind
    nr = [e for e in info["hygiene"].never_retrieved() if "Server.dispatcher" not in (e.get("future") or "")]
    if nr and not plan.get("client") and "EOF" not in (res.get("seq") or []):
        res["violations"].append({"key": "task-left-behind-by-abort", "msg": f"{[(e.get('future') or '')[:160] + ' ' + str(e.get('exception'))[:80] for e in nr[:2]]}"})
    return res


def run_case(case):
    out = {"violations": [], "monitors": {}, "sigs": [], "stats": {}}
    base = dict(case["plan"])

    def merge(res, plan, label):
        if res.get("inconclusive"):
            out["inconclusive"] = f"{label}: {res['inconclusive']}"
            out["trace"] = res.get("trace", "")
            return False
        for k, v in res["monitors"].items():
            out["monitors"][k] = out["monitors"].get(k, 0) + v
        out["sigs"].append(res["sig"])
        for v in res["violations"]:
            v["replay_case"] = {"kind": "single", "plan": plan}
            out["violations"].append(v)
        return True

    if case["kind"] == "single":
        res = run_plan(base)
        merge(res, base, "single")
        out["sample"] = {"plan": base, "replies": res.get("seq"), "phase": res.get("phase")}
        return out
    base["k"] = None
    res0 = run_plan(base)       # fault-free run: ABOR after completion
    if case.get("late_is_timeout"):
        # a stalled peer and a configured time-out: by the time of the late ABOR the server has rightly given the session up
        # (C16); only the event count of this run is used
        res0 = dict(res0, violations=[v for v in res0.get("violations", []) if not v["key"].startswith(("session-dropped", "followup-failed"))])
    if not merge(res0, base, "late"):
        return out
    N = res0["nevents"]
    if case.get("late_is_timeout") and res0.get("stall_event") is not None:
        N = min(N, res0["stall_event"] + 4)      # ABOR positions up to the moment the peer stops reading (and a little after)
    phases = {}
    positions = 0
    for k in [-1] + list(range(0, N, case.get("stride", 1))):
        for it in case.get("iters", [0]):
            plan = dict(base)
            plan["k"] = k
            plan["iters"] = it
            res = run_plan(plan)
            if not merge(res, plan, f"abor@{k}+{it}"):
                return out
            positions += 1
            phases[res["phase"]] = phases.get(res["phase"], 0) + 1
    out["stats"]["abort_positions_covered"] = positions
    out["stats"]["phases_seen"] = sorted(phases)
    out["sample"] = {"plan": base, "events_after_transfer_command": N, "abort_positions": positions, "phases": phases,
                     "late_abor_replies": res0.get("seq")}
    return out


def gen_cases(tier, seed):
    cases = []
    bs = 8192
    sizes_q = {"RETR": [0, 1, bs - 1, bs + 1, 3 * bs + 17, 70000], "STOR": [0, 1, bs + 1, 3 * bs + 17], "APPE": [bs + 1],
               "LIST": [0], "MLSD": [0]}
    sizes_t = {"RETR": [0, 1, bs - 1, bs, bs + 1, 2 * bs, 3 * bs + 17, 70000, 200000], "STOR": [0, 1, bs - 1, bs, bs + 1, 3 * bs + 17, 70000],
               "APPE": [0, bs + 1, 3 * bs], "LIST": [0], "MLSD": [0]}
    sizes = sizes_q if tier == "quick" else sizes_t
    fus = ["pwd+retr", "pasv+list", "quit", "reuse+retr"]
    i = 0
    for verb in ("RETR", "STOR", "APPE", "LIST", "MLSD"):
        for size in sizes[verb]:
            for mode in ("before", "after", "never"):
                if mode == "never" and size not in (0, bs + 1):
                    continue
                i += 1
                plan = {"verb": verb, "size": size, "connect": mode, "passive": "EPSV" if i % 2 else "PASV",
                        "followup": fus[i % 4], "seed": seed, "dir_entries": 40 if verb in ("LIST", "MLSD") else 0}
                cases.append({"kind": "enum", "plan": plan})
                if tier == "thorough":
                    for mss, lat, bdel in ((64, 0.0005, None), (536, 0.003, [0, 0.0004, 0.002])):
                        if size > 30000 and mss == 64:
                            continue
                        p2 = dict(plan, mss=mss, latency=lat, followup=fus[(i + 1) % 4], seed=seed + 1)
                        if bdel:
                            p2["backend_delay"] = bdel
                        cases.append({"kind": "enum", "plan": p2, "stride": 2 if mss == 64 else 1})
    # ABOR a few loop iterations after an event, zero extra latency: windows between two network events
    for verb, size in (("RETR", bs + 1), ("STOR", bs + 1), ("MLSD", 0), ("RETR", 0)):
        for mode in ("before", "after"):
            cases.append({"kind": "enum", "iters": [1, 2, 3, 4] if tier == "quick" else [1, 2, 3, 4, 5, 6, 8],
                          "plan": {"verb": verb, "size": size, "connect": mode, "seed": seed, "followup": "pwd+retr",
                                   "dir_entries": 10 if verb == "MLSD" else 0}})
    # slow back end: ABOR lands while the worker is inside a back-end call
    for verb in ("RETR", "STOR", "LIST"):
        cases.append({"kind": "enum", "plan": {"verb": verb, "size": 2 * bs + 5, "connect": "before", "seed": seed,
                                               "backend_delay": [0.0015], "dir_entries": 8 if verb == "LIST" else 0}})
    # a back end whose write takes its time before it stores the block
    for verb, size in (("STOR", 3 * bs + 17), ("APPE", 2 * bs + 1)):
        cases.append({"kind": "enum", "stride": 2 if tier == "quick" else 1,
                      "plan": {"verb": verb, "size": size, "connect": "before", "seed": seed, "backend_delay": [0.004], "followup": "pwd+retr",
                               "block_size": 4096}})
        # ... and the sender is slower still: the server waits for the next block while the last one is on its way into the store
        cases.append({"kind": "enum", "stride": 2 if tier == "quick" else 1,
                      "plan": {"verb": verb, "size": 3 * 4096, "connect": "before", "seed": seed, "slow_write": 0.05, "followup": "pwd+retr",
                               "block_size": 4096, "chunk": 4096, "chunk_gap": 0.12}})
    # a back end that acknowledges a write late (the bytes are already in the file when the ABOR lands)
    for verb, size in (("STOR", 3 * bs + 17), ("APPE", 2 * bs + 1), ("STOR", 70000)):
        cases.append({"kind": "enum", "stride": 2 if tier == "quick" else 1,
                      "plan": {"verb": verb, "size": size, "connect": "before", "seed": seed, "write_ack_delay": 0.0015, "followup": "pwd+retr",
                               "block_size": 4096 if size < 70000 else 8192}})
    # an unlimited wait for the data connection (wait_future_timeout=None): ABOR while the transfer still waits
    for verb in ("RETR", "STOR", "LIST", "MLSD"):
        for mode in ("after", "never"):
            for fu in ("pwd+retr", "pasv+list", "reuse+retr"):
                cases.append({"kind": "enum", "plan": {"verb": verb, "size": bs + 1, "connect": mode, "seed": seed, "followup": fu,
                                                       "server_kwargs": {"wait_future_timeout": None}, "dir_entries": 5 if verb in ("LIST", "MLSD") else 0}})
    # speed limits: the ABOR finds the worker asleep behind a throttle (blocks of 8 KiB at 20-40 kB/s)
    for verb, size, kw in ((("RETR", 40000, {"write_speed_limit": 20000}), ("STOR", 40000, {"read_speed_limit": 20000})) if tier == "quick" else
                           (("RETR", 40000, {"write_speed_limit": 20000}), ("STOR", 40000, {"read_speed_limit": 20000}),
                            ("RETR", 70000, {"write_speed_limit_per_connection": 40000}), ("APPE", 30000, {"read_speed_limit_per_connection": 15000}),
                            ("LIST", 0, {"write_speed_limit": 1500}), ("MLSD", 0, {"write_speed_limit_per_connection": 3000}))):
        for fu in (("pwd+retr",) if tier == "quick" else ("pwd+retr", "reuse+retr", "quit")):
            cases.append({"kind": "enum", "stride": 2 if tier == "quick" else 1,
                          "plan": {"verb": verb, "size": size, "connect": "before", "seed": seed, "followup": fu, "server_kwargs": kw,
                                   "dir_entries": 30 if verb in ("LIST", "MLSD") else 0}})
    # USER for a password account right before the ABOR: the session is logged out, its transfer is aborted all the same
    for verb, size, backend in (("RETR", 3 * bs + 17, "memory"), ("STOR", 3 * bs + 17, "memory")) if tier == "quick" else \
            (("RETR", 3 * bs + 17, "memory"), ("STOR", 3 * bs + 17, "memory"), ("RETR", 70000, "async"), ("LIST", 0, "memory")):
        cases.append({"kind": "enum", "stride": 2 if tier == "quick" else 1,
                      "plan": {"verb": verb, "size": size, "connect": "before", "seed": seed, "backend": backend, "followup": "quit",
                               "before_abor": ["USER alice"], "dir_entries": 12 if verb == "LIST" else 0}})
    # ... and USER for a name the server does not know (no anonymous fall-back: 530, the session has no user at all)
    for verb, size in (("RETR", 3 * bs + 17), ("STOR", 3 * bs + 17)):
        cases.append({"kind": "enum", "stride": 2 if tier == "quick" else 1,
                      "plan": {"verb": verb, "size": size, "connect": "before", "seed": seed, "backend": "memory", "followup": "quit",
                               "before_abor": ["USER nobody-there"], "no_fallback": True, "dir_entries": 0}})
    # a second ABOR, or another command, written in one piece with the ABOR
    for tail in (["ABOR"], ["PWD"], ["ABOR", "PWD"]):
        for verb, size, backend in ((("RETR", 3 * bs + 17, "async"), ("STOR", 3 * bs + 17, "memory")) if tier == "quick" else
                                    (("RETR", 3 * bs + 17, "async"), ("STOR", 3 * bs + 17, "memory"), ("RETR", 70000, "memory"), ("STOR", 3 * bs + 17, "async"),
                                     ("LIST", 0, "async"), ("MLSD", 0, "memory"), ("APPE", bs + 1, "async"))):
            cases.append({"kind": "enum", "stride": 2 if tier == "quick" else 1,
                          "plan": {"verb": verb, "size": size, "connect": "before", "seed": seed, "backend": backend, "followup": "pwd+retr",
                                   "tail": tail, "dir_entries": 12 if verb in ("LIST", "MLSD") else 0,
                                   **({"exec_delay": 0.0007} if backend == "async" else {"backend_delay": [0.0015]})}})
    for tail in (["ABOR"], ["PWD"]):
        cases.append({"kind": "single", "plan": {"verb": "RETR", "size": 0, "no_transfer": True, "followup": "pwd+retr", "seed": seed, "tail": tail}})
    # executor-based back end: the ABOR finds the worker inside a file operation that runs in a thread
    for verb, size in (("RETR", 3 * bs + 17), ("STOR", 3 * bs + 17)) if tier == "quick" else (("RETR", 3 * bs + 17), ("STOR", 3 * bs + 17), ("RETR", 70000), ("APPE", bs + 1), ("LIST", 0)):
        cases.append({"kind": "enum", "stride": 3 if tier == "quick" else 1,
                      "plan": {"verb": verb, "size": size, "connect": "before", "seed": seed, "backend": "async", "followup": "reuse+retr",
                               "dir_entries": 8 if verb == "LIST" else 0}})
    # stalled download: the peer stops reading a file larger than all buffers, then aborts
    for fu in (["pwd+retr"] if tier == "quick" else fus):
        cases.append({"kind": "enum", "stride": 9 if tier == "quick" else 3,
                      "plan": {"verb": "RETR", "size": 500000, "connect": "before", "stall_after": 20000, "seed": seed, "followup": fu}})
    # ... the same with time-outs configured (the abort must not wait for the peer to read what is still unsent)
    for kw in ({"socket_timeout": 2}, {"socket_timeout": 3, "idle_timeout": 30}):
        cases.append({"kind": "enum", "stride": 9 if tier == "quick" else 3, "late_is_timeout": True,
                      "plan": {"verb": "RETR", "size": 500000, "connect": "before", "stall_after": 20000, "seed": seed, "followup": "pwd+retr",
                               "server_kwargs": kw}})
    for fu in fus:
        cases.append({"kind": "single", "plan": {"verb": "RETR", "size": 0, "no_transfer": True, "followup": fu, "seed": seed}})
    # aioftp's own client aborts in mid-transfer and goes on
    for direction in ("download", "upload"):
        for blocks in ((1, 3) if tier == "quick" else (0, 1, 2, 3, 7)):
            for block in ((8192,) if tier == "quick" else (100, 8192, 20000)):
                for passive in ("epsv", "pasv"):
                    for mss, lat in (((1460, 0.001),) if tier == "quick" else ((1460, 0.001), (64, 0.0005), (536, 0.004))):
                        cases.append({"kind": "single", "plan": {"client": True, "direction": direction, "blocks": blocks, "block": block,
                                                                 "size": 400000, "passive": passive, "mss": mss, "latency": lat, "seed": seed,
                                                                 "offset": 0 if blocks % 2 else 1234}})
    return cases
