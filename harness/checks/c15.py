"""C15 - speed limits bound the cumulative rate, compose, and cost nothing when off."""

import asyncio
import random

from .. import boot  # noqa: F401
from .. import world as W
from ..corpus import payload_bytes
from ..runner import sig_of
import aioftp
import aioftp.common

PROPERTY = "C15"
LEVEL = "exploration"
RULE = ("API level (virtual clock): real Throttle / StreamThrottle / ThrottleStreamIO over a fake reader/writer whose operations "
        "take scripted virtual durations; random traces of chunk sizes (1..65536), I/O durations, idle gaps shorter and longer "
        "than reset_rate, 1..4 streams sharing 1..3 throttles, limits None / 0 / positive, opposite-direction-only limits.  "
        "Every I/O below the throttle is recorded (start, end, bytes).  Oracle per Throttle with limit L: at every I/O start, "
        "bytes completed so far <= L*(t - t0) + eps (cumulative bound); start - request <= what that bound requires + eps (no "
        "extra delay); zero virtual time when no limit applies.  End to end (simulated network): all five limit levels (client, "
        "server, per connection, per user, per user connection) x direction x 1..3 concurrent sessions x sizes, with StreamIO "
        "read/write instrumented: the same cumulative bound per Throttle object over all streams carrying it, duration <= "
        "N/L_min + unthrottled duration + eps, per-connection limits independent.  Re-login (black box, raw peer): PASV/EPSV [+ data "
        "connect] under user A, USER B, then RETR/STOR: the duration obeys B's limit (lower and upper bound) or is unthrottled "
        "when B has none.  distinct = distinct traces/configurations; "
        "non-trivial = at least one positive limit applies.")
RULE += ("  " + 'Also (round 6): 8-20 transfers of about one block each, one after the other in one session, at every level and in both directions: the total duration has the lower bound (bytes - one block per stream in flight) / L.')
RULE += ("  " + 'Also (round 7): a session that sends USER for its own account again before each of 8-14 one-block transfers, with and without waiting for replies (user and user-connection level, both directions, with and without password): lower bound on the total duration.')
RULE += ("  " + 'Also (round 8): USER for an unlimited account after an eighth of a transfer begun under a user / user-connection limit: the transfer keeps its limit.')
RULE += ("  " + "Also (round 9): speed limits together with short time-outs (the pause a limit imposes is not the peer's silence).")
RULE += ("  " + 'Also (round 10): USER for another account (with or without password, no PASS sent) after the 150 of a transfer whose data connection is not made yet (when=before_data); a refused USER (530) before each re-login of relogin_repeat.')
RULE += ("  " + 'Also (round 11): 300 other accounts log in and leave between the first session of a limited user and one more.')
ASSUMPTIONS = ["virtual time of the simulated loop; eps = half a byte per reset fold plus float slack",
               "the bound is cumulative since the first limited I/O (an idle period earns credit), as the statement says"]
REQUIRED_MONITORS = ["bound_checks", "delay_checks", "unlimited_ops", "e2e_bound_checks", "e2e_duration", "relogin_duration", "relogin_shared", "relogin_repeat"]
ANCHOR_FUNCTIONS = ['common.py:Throttle.wait', 'common.py:Throttle.append', 'common.py:ThrottleStreamIO.wait']
EXHAUSTIVE = {"quick": False, "thorough": False}


class FakeReader:
    def __init__(self, log, sid, script):
        self.log, self.sid, self.script = log, sid, script

    async def _io(self, n_max):
        dur, n = self.script.pop(0) if self.script else (0, 0)
        n = min(n, n_max) if n_max and n_max > 0 else n
        t0 = asyncio.get_running_loop().time()
        if dur:
            await asyncio.sleep(dur)
        self.log.append((self.sid, "read", t0, asyncio.get_running_loop().time(), n))
        return b"x" * n

    async def read(self, count=-1):
        return await self._io(count)

    async def readline(self):
        return await self._io(0)


class FakeWriter:
    def __init__(self, log, sid, script):
        self.log, self.sid, self.script = log, sid, script
        self._pending = 0
        self._t0 = None

    def write(self, data):
        self._pending = len(data)
        self._t0 = asyncio.get_running_loop().time()

    async def drain(self):
        dur = self.script.pop(0) if self.script else 0
        if dur:
            await asyncio.sleep(dur)
        self.log.append((self.sid, "write", self._t0, asyncio.get_running_loop().time(), self._pending))

    def close(self):
        pass


class Shadow:
    """independent account of one Throttle: t0 and bytes completed"""

    def __init__(self, limit):
        self.limit = limit
        self.t0 = None
        self.done = 0
        self.folds = 0


async def api_trace(net, hyg, plan):
    rng = random.Random(plan["seed"])
    loop = asyncio.get_running_loop()
    viol = []
    mon = {"bound_checks": 0, "delay_checks": 0, "unlimited_ops": 0}
    nthr = plan["nthrottles"]
    limits = plan["limits"]          # list of (read_limit, write_limit)
    thr = [aioftp.StreamThrottle(read=aioftp.Throttle(limit=r, reset_rate=plan["reset_rate"]),
                                 write=aioftp.Throttle(limit=w, reset_rate=plan["reset_rate"])) for r, w in limits]
    shadow = {}
    for st in thr:
        for t in (st.read, st.write):
            shadow[id(t)] = Shadow(t.limit)
    log = []
    streams = []
    for sid, members in enumerate(plan["streams"]):
        rs = [(rng.choice(plan["durs"]), rng.choice(plan["sizes"])) for _ in range(plan["ops"])]
        ws = [rng.choice(plan["durs"]) for _ in range(plan["ops"])]
        s = aioftp.ThrottleStreamIO(FakeReader(log, sid, rs), FakeWriter(log, sid, ws),
                                    throttles={f"t{i}": thr[i] for i in members})
        streams.append(s)
    eps_t = 1e-6
    ops = []   # (sid, k, direction, request, start, end, n)

    async def run_stream(sid, s, members):
        r2 = random.Random(plan["seed"] * 31 + sid)
        for k in range(plan["ops"]):
            gap = r2.choice(plan["gaps"])
            if gap:
                await asyncio.sleep(gap)
            direction = r2.choice(plan["directions"])
            request = loop.time()
            nlog = len(log)
            if direction == "read":
                await s.read(r2.choice(plan["sizes"]))
            else:
                await s.write(b"y" * r2.choice(plan["sizes"]))
            mine = [x for x in log[nlog:] if x[0] == sid]
            if not mine:
                viol.append({"key": "io-not-performed", "msg": f"stream {sid} op {k}"})
                return
            _, _, start, end, n = mine[-1]
            ops.append((sid, k, direction, request, start, end, n))
    await asyncio.gather(*[run_stream(sid, s, m) for sid, (s, m) in enumerate(zip(streams, plan["streams"]))])

    # offline oracle ----------------------------------------------------------
    rr = plan["reset_rate"]
    for ti in range(nthr):
        for direction in ("read", "write"):
            t = getattr(thr[ti], direction)
            L = t.limit
            members = [sid for sid, m in enumerate(plan["streams"]) if ti in m]
            mine = sorted([o for o in ops if o[0] in members and o[2] == direction], key=lambda o: (o[5], o[4]))
            if not (L is not None and L > 0) or not mine:
                continue
            # replay the appends in completion order: t0 as the implementation sees it, number of folds
            t0 = mine[0][4]
            cur = t0
            folds_at = []
            for o in mine:
                if o[4] - cur > rr:
                    cur = o[4]
                    folds_at.append(o[5])
            for o in mine:
                sid, k, _, request, start, end, n = o
                done_strict = sum(x[6] for x in mine if x[5] < request - 1e-12)
                done_loose = sum(x[6] for x in mine if x[5] <= request + 1e-12 and x is not o)
                nf = sum(1 for f in folds_at if f <= start) + 1
                if done_strict:
                    mon["bound_checks"] += 1
                    allowed = L * (start - t0) + nf * 0.5 + 1e-6 * L + 1e-6
                    if done_strict > allowed:
                        viol.append({"key": f"rate-exceeded:{direction}",
                                     "msg": f"throttle {ti} ({direction}, limit {L} B/s, streams {members}): stream {sid} op {k} started "
                                            f"{start - t0:.6f}s after the first limited I/O with {done_strict} bytes already completed "
                                            f"(allowed {allowed:.1f}); limits {limits} reset_rate {rr}"})
                        break
    for o in ops:
        sid, k, direction, request, start, end, n = o
        need = request
        lim_any = False
        slack = eps_t
        for ti in plan["streams"][sid]:
            t = getattr(thr[ti], direction)
            L = t.limit
            if not (L is not None and L > 0):
                continue
            lim_any = True
            members = [x for x, m in enumerate(plan["streams"]) if ti in m]
            mine = sorted([x for x in ops if x[0] in members and x[2] == direction and x is not o], key=lambda x: (x[5], x[4]))
            prior = [x for x in mine if x[5] <= request + 1e-12]
            if prior:
                t0 = prior[0][4]
                need = max(need, t0 + sum(x[6] for x in prior) / L)
                slack += (len(prior) + 1) * 0.5 / L
        if not lim_any:
            mon["unlimited_ops"] += 1
            if start - request > eps_t:
                viol.append({"key": f"delay-without-limit:{direction}",
                             "msg": f"stream {sid} op {k} ({direction}) has no applicable limit (limits {limits}, members "
                                    f"{plan['streams'][sid]}) but started {start - request:.6f}s after the request"})
        else:
            mon["delay_checks"] += 1
            if start - need > slack:
                viol.append({"key": f"extra-delay:{direction}",
                             "msg": f"stream {sid} op {k}: requested {request:.6f}, started {start:.6f}; the limits only require "
                                    f"{need:.6f}; limits {limits} members {plan['streams'][sid]} reset_rate {rr}"})
    nontrivial = any((r and r > 0) or (w and w > 0) for r, w in limits)
    return {"violations": viol[:4], "monitors": mon, "sig": sig_of([plan["limits"], plan["streams"], len(log), round(loop.time(), 3)]),
            "nontrivial": nontrivial,
            "sample": {"limits": limits, "streams": plan["streams"], "reset_rate": plan["reset_rate"], "ios": len(log),
                       "virtual_duration": round(loop.time() - 1000.0, 3), "first_ios": [list(x) for x in log[:6]]}}


# ----------------------------------------------------------------------------- end to end

async def e2e(net, hyg, plan):
    loop = asyncio.get_running_loop()
    viol = []
    mon = {"e2e_bound_checks": 0, "e2e_duration": 0}
    records = []     # (stream, direction, start, end, n)
    SIO = aioftp.common.StreamIO
    o_read, o_readline, o_write = SIO.read, SIO.readline, SIO.write

    def wrap(orig, direction, sized):
        def wrapper(self, *a, **kw):
            coro = orig(self, *a, **kw)

            async def run():
                t0 = loop.time()
                res = await coro
                n = len(res) if direction == "read" else len(a[0])
                records.append((self, direction, t0, loop.time(), n))
                return res
            return run()
        return wrapper
    SIO.read = wrap(o_read, "read", True)
    SIO.readline = wrap(o_readline, "read", True)
    SIO.write = wrap(o_write, "write", True)
    try:
        size = plan["size"]
        content = payload_bytes(size, 1)
        ntrans = plan.get("transfers", 1)      # transfers per session, one after the other on one control connection
        nsess = plan["sessions"]
        ukw = {k[2:]: v for k, v in plan["limits"].items() if k.startswith("u_")}
        skw = {k[2:]: v for k, v in plan["limits"].items() if k.startswith("s_")}
        ckw = {k[2:]: v for k, v in plan["limits"].items() if k.startswith("c_")}
        users = [aioftp.User("u1", None, base_path="/", **ukw), aioftp.User("u2", None, base_path="/")]
        tree = {f"/f{i}.bin": content for i in range(nsess)}

        async def run_once(skw, ukw_on, ckw):
            us = users if ukw_on else [aioftp.User("u1", None, base_path="/"), aioftp.User("u2", None, base_path="/")]
            w = W.World(net, tree=tree, users=us, port=2121 + run_once.n, **skw)
            run_once.n += 1
            await w.start()
            t_start = loop.time()
            durations = []

            async def one(i):
                c = aioftp.Client(path_io_factory=aioftp.MemoryPathIO, **ckw)
                await c.connect("127.0.0.1", w.port)
                await c.login("u1" if i < plan["same_user"] else "u2")
                t0 = loop.time()
                ok = True
                for j in range(ntrans):
                    if plan["direction"] == "download":
                        got = bytearray()
                        async with c.download_stream(f"/f{i}.bin") as s:
                            async for b in s.iter_by_block(plan["block"]):
                                got += b
                        ok = ok and bytes(got) == content
                    else:
                        async with c.upload_stream(f"/up{i}_{j}.bin") as s:
                            for off in range(0, size, plan["block"]):
                                await s.write(content[off:off + plan["block"]])
                        ok = ok and w.tree().get(f"/up{i}_{j}.bin") == content
                durations.append((i, loop.time() - t0, ok))
                await c.quit()
            await asyncio.gather(*[one(i) for i in range(nsess)])
            total = loop.time() - t_start
            await w.stop()
            w.cleanup()
            return total, sorted(durations)
        run_once.n = 0
        base_total, base_d = await run_once({}, False, {})
        del records[:]
        thr_total, thr_d = await run_once(skw, True, ckw)
        # cumulative bound per Throttle object
        per_throttle = {}
        for stream, direction, t0, t1, n in records:
            ths = getattr(stream, "throttles", None)
            if not ths:
                continue
            for st in ths.values():
                t = getattr(st, direction)
                if t.limit:
                    ent = per_throttle.setdefault(id(t), (t, [], set()))
                    ent[1].append((t0, t1, n))
                    ent[2].add(id(stream))
        worst = 0.0
        for tid, (t, ios, streams_) in per_throttle.items():
            ios.sort()
            first = min(x[0] for x in ios)
            block = max(x[2] for x in ios)
            allowance = len(streams_) * block + 2.0 + 1e-6 * t.limit
            worst = max(worst, sum(x[2] for x in ios) / t.limit)
            for (s0, s1, n) in ios:
                done = sum(x[2] for x in ios if x[1] < s0 - 1e-12)
                mon["e2e_bound_checks"] += 1
                allowed = t.limit * (s0 - first) + allowance
                if done > allowed:
                    viol.append({"key": f"e2e-rate-exceeded:{plan['level']}",
                                 "msg": f"{plan}: throttle with limit {t.limit} shared by {len(streams_)} streams: {done} bytes completed "
                                        f"{s0 - first:.4f}s after its first I/O (allowed {allowed:.1f} incl. one block of {block} per stream)"})
                    break
        # duration
        mon["e2e_duration"] += 1
        for (i, d, ok) in thr_d:
            if not ok:
                viol.append({"key": "content-differs-under-throttle", "msg": f"{plan}: session {i} transferred wrong bytes"})
        lims = [v for k_, v in plan["limits"].items() if v and "timeout" not in k_]
        if lims:
            # configuration-level bounds: how many sessions share each configured limit
            def sharing(key):
                if key.startswith("s_") and "per_connection" not in key:
                    return nsess
                if key.startswith("u_") and "per_connection" not in key:
                    return plan["same_user"]
                return 1
            direction_keys = [k for k, v in plan["limits"].items() if v and "timeout" not in k and
                              (("write" in k) == (plan["direction"] == "download") if k[0] in "su" else
                               ("read" in k) == (plan["direction"] == "download"))]
            size = size * ntrans
            need = [(size * sharing(k) / plan["limits"][k], k) for k in direction_keys]
            if need:
                tight, kk = max(need)
                upper = tight * 1.15 + base_total + 1.5
                if thr_total > upper:
                    viol.append({"key": f"slower-than-limit-requires:{kk[2:]}",
                                 "msg": f"{plan}: throttled run took {thr_total:.3f}s; the tightest configured limit ({kk}, shared by "
                                        f"{sharing(kk)} session(s)) needs {tight:.3f}s, the unthrottled run {base_total:.3f}s"})
                for t_need, k in need:
                    allowance = (2 * sharing(k) + 2) * max(plan["block"], 8192)
                    if ntrans > 1:
                        # many transfers of at most one block each: one block in flight per stream, a session has its
                        # control stream and one data stream at a time
                        allowance = (2 * sharing(k) + 1) * (plan["size"] + 1)
                    lower = (size * sharing(k) - allowance) / plan["limits"][k] * 0.95
                    if lower > 0 and thr_total < lower:
                        viol.append({"key": f"faster-than-shared-limit-allows:{k[2:]}",
                                     "msg": f"{plan}: {sharing(k)} session(s) sharing {k}={plan['limits'][k]} moved {size * sharing(k)} "
                                            f"bytes in {thr_total:.3f}s (< {lower:.3f}s)"})
        if not per_throttle and thr_total > base_total + 1e-6:
            viol.append({"key": "delay-without-limit:e2e", "msg": f"{plan}: no throttle with a limit was in the path but the run took "
                                                                   f"{thr_total:.6f}s vs {base_total:.6f}s"})
        return {"violations": viol[:4], "monitors": mon, "sig": sig_of(plan), "nontrivial": bool(lims),
                "sample": {"plan": plan, "unthrottled_s": round(base_total, 4), "throttled_s": round(thr_total, 4),
                           "throttle_objects": len(per_throttle)}}
    finally:
        SIO.read, SIO.readline, SIO.write = o_read, o_readline, o_write


async def relogin(net, hyg, plan):
    """black box: the limits of the user who is logged in when the transfer runs govern it, also when the passive listener
    and the data connection were set up under a previous login of the same control connection."""
    from ..corpus import Session
    loop = asyncio.get_running_loop()
    mon = {"relogin_duration": 0}
    viol = []
    L, size, d = plan["L"], plan["size"], plan["direction"]
    key = ("write" if d == "download" else "read") + "_speed_limit" + ("_per_connection" if plan["level"] == "user_connection" else "")
    users = [aioftp.User("fast", None, base_path="/"), aioftp.User("slow", None, base_path="/", **{key: L}),
             aioftp.User("slower", None, base_path="/", **{key: L // 3})]
    w = W.World(net, tree={"/f.bin": payload_bytes(size, 2)}, users=users)
    await w.start()
    try:
        first, second = plan["order"]
        s = Session(net, 2121, name="relogin")
        steps = [["connect"], ["login", first], ["cmd", "TYPE I"], [plan.get("pcmd", "pasv")]]
        if plan["when"] == "after_data":
            steps += [["data"]]
        steps += [["login", second]]
        for st in steps:
            if not await s.step(st):
                break
        t0 = loop.time()
        if d == "download":
            await s.step(["xfer", "RETR", "/f.bin"])
        else:
            await s.step(["xfer", "STOR", "/up.bin", size, "before", 0, 4096, 0])
        dur = loop.time() - t0
        codes = s.outcomes[-1]
        await s.step(["quit"])
        mon["relogin_duration"] += 1
        if [c for c in codes if c.isdigit()] != ["150", "226"]:
            viol.append({"key": "relogin-transfer-failed", "msg": f"{plan}: transfer after re-login answered {codes}"})
        else:
            limit = {"fast": None, "slow": L, "slower": L // 3}[second]
            if limit is None:
                if dur > 1.0:
                    viol.append({"key": f"delay-without-limit:relogin:{plan['level']}",
                                 "msg": f"{plan}: user {second!r} has no limit but the transfer of {size} bytes took {dur:.3f}s "
                                        f"(the previous login {first!r} on this control connection was limited)"})
            else:
                lower = (size - 4 * 8192 - limit * 0.05) / limit * 0.95
                upper = size / limit * 1.15 + 1.5
                if dur < lower:
                    viol.append({"key": f"faster-than-user-limit-allows:relogin:{plan['level']}",
                                 "msg": f"{plan}: user {second!r} is limited to {limit} B/s ({key}) but {size} bytes moved in "
                                        f"{dur:.3f}s (< {lower:.3f}s); data channel set up under the previous login {first!r}"})
                elif dur > upper:
                    viol.append({"key": f"slower-than-limit-requires:relogin:{plan['level']}",
                                 "msg": f"{plan}: limit {limit} B/s needs {size / limit:.3f}s, took {dur:.3f}s"})
        await w.stop()
        return {"violations": viol, "monitors": mon, "sig": sig_of(plan), "nontrivial": True,
                "sample": {"plan": plan, "duration_s": round(dur, 4), "codes": codes}}
    finally:
        w.cleanup()


async def relogin_mid_transfer(net, hyg, plan):
    """black box: a transfer that started under an account's limit keeps that limit to its end, also when USER for an account
    without limits arrives on the control connection meanwhile (RFC 959: a transfer in progress is completed under the old
    access control parameters)"""
    from ..rawpeer import RawPeer
    loop = asyncio.get_running_loop()
    mon = {"relogin_mid_transfer": 0}
    viol = []
    L, size, d = plan["L"], plan["size"], plan["direction"]
    key = ("write" if d == "download" else "read") + "_speed_limit" + ("_per_connection" if plan["level"] == "user_connection" else "")
    users = [aioftp.User("slow", None, base_path="/", **{key: L}), aioftp.User("free", plan.get("free_password"), base_path="/")]
    w = W.World(net, tree={"/f.bin": payload_bytes(size, 2)}, users=users)
    await w.start()
    try:
        p = RawPeer(net, 2121, name="mid")
        await p.connect()
        for ln in ("USER slow", "TYPE I"):
            await p.cmd(ln)
        port = p.parse_epsv(await p.cmd("EPSV"))
        before_data = plan.get("when") == "before_data"
        if before_data:
            # the transfer command is accepted (150) while no data connection exists; USER for the other account (answered 230,
            # or 331 and no password ever given); only then the data connection: the transfer is the limited account's
            r1 = await p.cmd("RETR /f.bin" if d == "download" else "STOR /up.bin")
            r2 = await p.cmd("USER free")
            if r1 in (None, "EOF") or r1.code != "150" or r2 in (None, "EOF") or r2.code not in ("230", "331"):
                viol.append({"key": "relogin-transfer-failed", "msg": f"{plan}: transfer command -> {r1}, USER free -> {r2}"})
        dr, dw = await p.open_data(port)
        t0 = loop.time()
        moved = 0
        if d == "download":
            if not before_data:
                p.send("RETR /f.bin")
            sent_user = before_data
            while True:
                b = await asyncio.wait_for(dr.read(8192), 120)
                if not b:
                    break
                moved += len(b)
                if not sent_user and moved >= size // 8:
                    sent_user = True
                    p.send("USER free")
            dw.close()
        else:
            if not before_data:
                p.send("STOR /up.bin")
            payload = payload_bytes(size, 3)
            for off in range(0, size, 8192):
                dw.write(payload[off:off + 8192])
                await asyncio.wait_for(dw.drain(), 120)
                if off == (size // 8) // 8192 * 8192 and not before_data:
                    p.send("USER free")
            dw.close()
            await p.read_data(dr, wait=120)
            for _ in range(4):
                rr = await p.read_reply(wait=120)
                if rr in (None, "EOF") or rr.code == "226":
                    break
            moved = len(w.tree().get("/up.bin", b""))
        dur = loop.time() - t0
        mon["relogin_mid_transfer"] += 1
        lower = (moved - 4 * 8192 - 65536 - L * 0.05) / L * 0.9      # (what sits in network buffers when the peer is done writing)
        if moved != size:
            viol.append({"key": "relogin-transfer-failed", "msg": f"{plan}: {moved} of {size} bytes moved"})
        elif dur < lower:
            viol.append({"key": f"faster-than-limit-allows:relogin-mid-transfer:{plan['level']}",
                         "msg": f"{plan}: a transfer of {size} bytes begun under {key}={L}, USER for an unlimited account sent "
                                f"{'after the 150 and before the data connection was made' if before_data else 'after an eighth of it'}: "
                                f"done in {dur:.3f}s, the limit needs at least {lower:.3f}s"})
        p.cut("fin")
        await w.stop()
        return {"violations": viol, "monitors": mon, "sig": sig_of(plan), "nontrivial": True,
                "sample": {"plan": plan, "duration_s": round(dur, 4), "bytes": moved}}
    finally:
        w.cleanup()


async def relogin_repeat(net, hyg, plan):
    """black box: a session that sends USER for its own account again before every transfer (with or without waiting for the
    replies) stays under the per-connection / per-user limit of that account: k one-block transfers take what k blocks take"""
    from ..rawpeer import RawPeer
    loop = asyncio.get_running_loop()
    mon = {"relogin_repeat": 0}
    viol = []
    L, block, k, d = plan["L"], plan["block"], plan["k"], plan["direction"]
    key = ("write" if d == "download" else "read") + "_speed_limit" + ("_per_connection" if plan["level"] == "user_connection" else "")
    users = [aioftp.User("slow", "pw" if plan.get("password") else None, base_path="/", **{key: L})]
    w = W.World(net, tree={"/f.bin": payload_bytes(block, 2)}, users=users, block_size=block)
    await w.start()
    try:
        p = RawPeer(net, 2121, name="repeat")
        await p.connect()
        login = ["USER slow"] + (["PASS pw"] if plan.get("password") else [])
        for ln in login + ["TYPE I"]:
            await p.cmd(ln)
        r = await p.cmd("EPSV")
        port = p.parse_epsv(r)
        t0 = loop.time()
        moved = 0
        codes_seen = []
        for j in range(k):
            conn = await p.open_data(port)
            cmd = "RETR /f.bin" if d == "download" else f"STOR /up{j}.bin"
            # (refused_first: a USER that is refused with 530 comes before each login - the account's limit is the connection's, a
            # failed attempt in between does not start it from scratch)
            again = (["USER no-such-account"] if plan.get("refused_first") else []) + login
            if plan["pipelined"]:
                p.send("\r\n".join(again + [cmd]))
            else:
                for ln in again:
                    await p.cmd(ln, wait=120)
                p.send(cmd)
            dr, dw = conn
            if d == "download":
                got, st = await p.read_data(dr, wait=120)
                moved += len(got)
                dw.close()
            else:
                dw.write(payload_bytes(block, j))
                await asyncio.wait_for(dw.drain(), 120)
                dw.close()
                got, st = await p.read_data(dr, wait=120)     # the server's end closes when it has taken everything
                moved += block
            if not plan["pipelined"]:
                for _ in range(2):
                    await p.read_reply(wait=120)
            elif d == "upload":
                # (the next upload's data connection is only taken once this one is done: wait for its completion reply)
                while True:
                    rr = await p.read_reply(wait=120)
                    if rr in (None, "EOF"):
                        break
                    codes_seen.append(rr.code)
                    if rr.code[0] in "245" and rr.code not in ("230", "200", "530"):
                        break
        dur = loop.time() - t0
        mon["relogin_repeat"] += 1
        lower = (moved - 2 * block - L * 0.05) / L * 0.95
        codes = list(codes_seen)
        if plan["pipelined"]:
            while True:
                rr = await p.read_reply(wait=5)
                if rr in (None, "EOF"):
                    break
                codes.append(rr.code)
        if d == "upload":
            tree = w.tree()
            stored = sum(len(tree.get(f"/up{j}.bin", b"")) for j in range(k))
            if stored != k * block:
                moved = stored
        if plan["pipelined"] and codes.count("226") != k:
            viol.append({"key": "relogin-transfer-failed", "msg": f"{plan}: replies {codes}"})
        elif moved < k * block:
            viol.append({"key": "relogin-transfer-failed", "msg": f"{plan}: only {moved} of {k * block} bytes moved"})
        elif dur < lower:
            viol.append({"key": f"faster-than-limit-allows:relogin-repeat:{plan['level']}",
                         "msg": f"{plan}: {moved} bytes in {k} transfers, each after another USER for the same account, moved in "
                                f"{dur:.3f}s; {key}={L} needs at least {lower:.3f}s"})
        p.cut("fin")
        await w.stop()
        return {"violations": viol, "monitors": mon, "sig": sig_of(plan), "nontrivial": True,
                "sample": {"plan": plan, "duration_s": round(dur, 4), "bytes": moved}}
    finally:
        w.cleanup()


async def relogin_shared(net, hyg, plan):
    """black box: a per-user limit bounds the sum over all sessions of that user, also after one of them has logged in again
    (as the same or as another user and back)"""
    from ..corpus import Session
    loop = asyncio.get_running_loop()
    mon = {"relogin_shared": 0}
    viol = []
    L, size, d, n = plan["L"], plan["size"], plan["direction"], plan["sessions"]
    key = ("write" if d == "download" else "read") + "_speed_limit"
    users = [aioftp.User("other", None, base_path="/"), aioftp.User("slow", None, base_path="/", **{key: L})]
    users += [aioftp.User(f"guest{j:03d}", None, base_path="/") for j in range(plan.get("other_logins", 0))]
    w = W.World(net, tree={"/f.bin": payload_bytes(size, 2)}, users=users)
    await w.start()
    try:
        ss = [Session(net, 2121, name=f"u{i}") for i in range(n)]
        for s in ss:
            await s.run([["connect"], ["login", "slow"], ["cmd", "TYPE I"]])
        for i in plan["relogins"]:
            for who in plan["via"]:
                await ss[i].run([["login", who]])
            await ss[i].run([["login", "slow"]])
        for j in range(plan.get("churn", 0)):
            # one of the user's sessions leaves, a new one arrives: the limit is still one limit for all of them
            await ss[j].step(["quit"])
            fresh = Session(net, 2121, name=f"late{j}")
            await fresh.run([["connect"], ["login", "slow"], ["cmd", "TYPE I"]])
            ss[j] = fresh
        if plan.get("other_logins"):
            # many other accounts come and go while the user's first sessions stay; then one more session of the user arrives:
            # its limit is still the one limit of all of them
            from ..rawpeer import RawPeer
            for j in range(plan["other_logins"]):
                g = RawPeer(net, 2121, name=f"g{j}")
                await g.connect()
                await g.cmd(f"USER guest{j:03d}")
                await g.cmd("QUIT")
                g.cut("fin")
            late = Session(net, 2121, name="late")
            await late.run([["connect"], ["login", "slow"], ["cmd", "TYPE I"]])
            ss.append(late)
            n = len(ss)
        for s in ss:
            await s.run([[plan.get("pcmd", "epsv")]])
        t0 = loop.time()
        if d == "download":
            await asyncio.gather(*[s.step(["xfer", "RETR", "/f.bin"]) for s in ss])
        else:
            await asyncio.gather(*[s.step(["xfer", "STOR", f"/up{i}.bin", size, "before", 0, 4096, 0]) for i, s in enumerate(ss)])
        dur = loop.time() - t0
        codes = [s.outcomes[-1] for s in ss]
        for s in ss:
            await s.step(["quit"])
        mon["relogin_shared"] += 1
        if any([c for c in cs if c.isdigit()] != ["150", "226"] for cs in codes):
            viol.append({"key": "relogin-transfer-failed", "msg": f"{plan}: transfers answered {codes}"})
        else:
            lower = (n * size - (2 * n + 2) * 8192 - L * 0.1) / L * 0.95
            upper = n * size / L * 1.15 + 1.5
            if dur < lower:
                viol.append({"key": "faster-than-shared-limit-allows:relogin",
                             "msg": f"{plan}: {n} sessions of one user limited to {L} B/s ({key}) moved {n * size} bytes in {dur:.3f}s "
                                    f"(< {lower:.3f}s) after session(s) {plan['relogins']} logged in again"})
            elif dur > upper:
                viol.append({"key": "slower-than-limit-requires:relogin-shared", "msg": f"{plan}: took {dur:.3f}s, {n * size / L:.3f}s needed"})
        await w.stop()
        return {"violations": viol, "monitors": mon, "sig": sig_of(plan), "nontrivial": True,
                "sample": {"plan": plan, "duration_s": round(dur, 4)}}
    finally:
        w.cleanup()


def run_case(case):
    out = {"violations": [], "monitors": {}, "sigs": []}
    for plan in case["plans"]:
        fn = {"api": api_trace, "e2e": e2e, "relogin": relogin, "relogin_shared": relogin_shared, "relogin_repeat": relogin_repeat, "relogin_mid_transfer": relogin_mid_transfer}[plan["kind"]]

        async def main(net, hyg, plan=plan, fn=fn):
            return await fn(net, hyg, plan)
        res, info = W.run(main, seed=plan["seed"], net_kwargs=dict(latency=0.0005))
        if res is None:
            return W.failed(info, f"plan={plan}")
        for k, v in res["monitors"].items():
            out["monitors"][k] = out["monitors"].get(k, 0) + v
        if res["nontrivial"]:
            out["sigs"].append(res["sig"])
        for v in res["violations"]:
            v["replay_case"] = {"plans": [plan]}
            out["violations"].append(v)
        if plan["kind"] == "api":
            out.setdefault("sample", res["sample"])
        else:
            out["sample_e2e"] = res["sample"]
    if "sample" not in out and "sample_e2e" in out:
        out["sample"] = out.pop("sample_e2e")
    else:
        out.pop("sample_e2e", None)
    return out


def gen_cases(tier, seed):
    rng = random.Random(seed * 523 + 11)
    plans = []
    n_api = 2000 if tier == "quick" else 50000
    for i in range(n_api):
        nthr = rng.randint(1, 3)
        limits = []
        for _ in range(nthr):
            limits.append([rng.choice([None, 0, 100, 1000, 4096, 65536, 1000000]), rng.choice([None, 0, 50, 1000, 10000, 1000000])])
        nstreams = rng.randint(1, 4)
        streams = [sorted(rng.sample(range(nthr), rng.randint(1, nthr))) for _ in range(nstreams)]
        plans.append({"kind": "api", "seed": seed * 1000003 + i, "nthrottles": nthr, "limits": limits, "streams": streams,
                      "ops": rng.randint(3, 25), "reset_rate": rng.choice([10, 10, 1, 0.5, 100]),
                      "sizes": rng.choice([[1, 10, 100], [100, 1000, 8192], [8192], [1, 65536], [4096, 5000, 1]]),
                      "durs": rng.choice([[0], [0, 0.001], [0, 0.5], [0.01, 2.0, 0], [0, 0, 30.0]]),
                      "gaps": rng.choice([[0], [0, 0.1], [0, 0, 15.0], [0, 3.0], [0, 0, 0, 120.0]]),
                      "directions": rng.choice([["read"], ["write"], ["read", "write"]])})
    n_e2e = 60 if tier == "quick" else 1500
    levels = {
        "client": lambda L, d: {("c_read_speed_limit" if d == "download" else "c_write_speed_limit"): L},
        "server": lambda L, d: {("s_write_speed_limit" if d == "download" else "s_read_speed_limit"): L},
        "connection": lambda L, d: {("s_write_speed_limit_per_connection" if d == "download" else "s_read_speed_limit_per_connection"): L},
        "user": lambda L, d: {("u_write_speed_limit" if d == "download" else "u_read_speed_limit"): L},
        "user_connection": lambda L, d: {("u_write_speed_limit_per_connection" if d == "download" else "u_read_speed_limit_per_connection"): L},
    }
    for i in range(n_e2e):
        level = list(levels)[i % 5]
        d = rng.choice(["download", "upload"])
        L = rng.choice([5000, 20000, 100000])
        lim = levels[level](L, d)
        r = rng.random()
        if r < 0.2:
            # opposite direction only
            lim = levels[level](L, "upload" if d == "download" else "download")
        elif r < 0.4:
            other = list(levels)[(i + 2) % 5]
            lim.update(levels[other](rng.choice([8000, 50000]), d))
        nsess = rng.choice([1, 1, 2, 3])
        plans.append({"kind": "e2e", "seed": seed * 7 + i, "level": level, "direction": d, "limits": lim, "sessions": nsess,
                      "same_user": rng.randint(1, nsess), "size": rng.choice([1000, 20000, 60000]), "block": rng.choice([512, 8192])})
    # a limit together with time-outs shorter than the pause a block costs: the pause is no I/O, nothing times out, the bound holds
    for level in levels:
        for d in ("download", "upload"):
            lim = levels[level](8192, d)
            # (the time-out sits on the side that pauses: the other side legitimately waits a block's time for its next bytes)
            if level == "client":
                lim["c_socket_timeout"] = 0.3
            else:
                lim["s_socket_timeout"] = 0.25
            plans.append({"kind": "e2e", "seed": seed * 7 + len(plans), "level": level, "direction": d, "limits": lim, "sessions": 1, "same_user": 1,
                          "size": 40960, "block": 8192})
    # a limit of 0 is "no limit" at every level: same bytes, no delay
    for level in levels:
        for d in ("download", "upload"):
            lim = levels[level](0, d)
            if tier == "thorough":
                lim.update(levels[level](0, "upload" if d == "download" else "download"))
            plans.append({"kind": "e2e", "seed": seed * 7 + len(plans), "level": level, "direction": d, "limits": lim, "sessions": 1, "same_user": 1,
                          "size": rng.choice([1000, 20000]), "block": rng.choice([512, 8192])})
    # many small transfers of one session: what one data connection leaves unpaid is owed by the next one
    for level in levels:
        for d in ("download", "upload"):
            for nsess in ((1, 2) if tier == "thorough" else (1,)):
                k = rng.choice([8, 12, 20])
                block = rng.choice([2048, 8192])
                plans.append({"kind": "e2e", "seed": seed * 7 + len(plans), "level": level, "direction": d,
                              "limits": levels[level](rng.choice([4, 8]) * block, d), "sessions": nsess, "same_user": nsess,
                              "size": block + rng.choice([0, 0, 1, -1]), "block": block, "transfers": k})
    rel = []
    for order in (["fast", "slow"], ["slow", "fast"], ["slow", "slower"], ["slower", "slow"]):
        for when in ("after_data", "after_pasv"):
            for d in ("download", "upload"):
                for level in ("user", "user_connection"):
                    if tier == "quick" and rng.random() < 0.5 and not (order == ["fast", "slow"] and when == "after_data"):
                        continue
                    rel.append({"kind": "relogin", "seed": seed, "order": order, "when": when, "direction": d, "level": level,
                                "L": rng.choice([20000, 30000, 60000]), "size": rng.choice([100000, 122880, 200000]),
                                "pcmd": rng.choice(["pasv", "epsv"])})
    for n, relogins in ((2, [0]), (2, [0, 1]), (3, [1])):
        for via in ([], ["other"]):
            for d in ("download", "upload"):
                rel.append({"kind": "relogin_shared", "seed": seed, "sessions": n, "relogins": relogins, "via": via, "direction": d,
                            "L": rng.choice([30000, 40000]), "size": rng.choice([60000, 90000]), "pcmd": rng.choice(["pasv", "epsv"])})
    for n, churn in ((2, 1), (3, 1), (3, 2)):
        for d in ("download", "upload"):
            rel.append({"kind": "relogin_shared", "seed": seed, "sessions": n, "relogins": [], "via": [], "churn": churn, "direction": d,
                        "L": rng.choice([30000, 40000]), "size": rng.choice([60000, 90000]), "pcmd": rng.choice(["pasv", "epsv"])})
    # 300 other accounts log in and leave between the user's first sessions and one more of them
    for d in ("download", "upload"):
        rel.append({"kind": "relogin_shared", "seed": seed, "sessions": 1, "relogins": [], "via": [], "other_logins": 300, "direction": d,
                    "L": 30000, "size": 60000, "pcmd": "epsv"})
    for level in ("user_connection", "user"):
        for d in ("download", "upload"):
            for pipelined in (True, False):
                for password in ((False,) if tier == "quick" else (False, True)):
                    rel.append({"kind": "relogin_repeat", "seed": seed, "level": level, "direction": d, "pipelined": pipelined, "password": password,
                                "L": rng.choice([8192, 16384]), "block": rng.choice([4096, 8192]), "k": rng.choice([8, 10, 14])})
                    rel.append({"kind": "relogin_repeat", "seed": seed, "level": level, "direction": d, "pipelined": pipelined, "password": password,
                                "L": [8192, 16384][len(rel) % 2], "block": [4096, 8192][len(rel) % 2], "k": 10, "refused_first": True})
    for level in ("user_connection", "user"):
        for d in ("download", "upload"):
            rel.append({"kind": "relogin_mid_transfer", "seed": seed, "level": level, "direction": d, "L": rng.choice([100000, 200000]),
                        "size": rng.choice([400000, 600000])})
            for fp in (None, "secret"):
                rel.append({"kind": "relogin_mid_transfer", "seed": seed, "level": level, "direction": d, "L": [100000, 200000][len(rel) % 2],
                            "size": [400000, 600000][len(rel) % 2], "when": "before_data", "free_password": fp})
    per = 40
    api = [p for p in plans if p["kind"] == "api"]
    ee = [p for p in plans if p["kind"] == "e2e"]
    cases = [{"plans": api[i:i + per]} for i in range(0, len(api), per)]
    cases += [{"plans": ee[i:i + 4]} for i in range(0, len(ee), 4)]
    cases += [{"plans": rel[i:i + 4]} for i in range(0, len(rel), 4)]
    return cases
