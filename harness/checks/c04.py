"""C04 - read/write permissions follow the nearest-ancestor rule on the resolved path."""

import asyncio
import pathlib
import random

from .. import boot  # noqa: F401
from .. import world as W
from ..corpus import Session
from ..ftpmodel import norm
from ..runner import sig_of
from ..spyfs import DIR, memory_populate
import aioftp

PROPERTY = "C04"
LEVEL = "exploration"
RULE = ("random permission tables (1..6 entries over 9 paths incl. nested, duplicated, unordered, non-existent; all R/W "
        "combinations).  Function level: User.get_permissions for every path of a 40-path universe against an independent "
        "longest-prefix oracle.  Wire level: for every checked verb (CWD, CDUP, LIST, MLSD, MLST, RETR / MKD, RMD, DELE, RNFR, "
        "RNTO, STOR, APPE) and every target of the tree, the request is sent under 5 spellings (plain, a/../ detour, ./, //, "
        "relative from another cwd) by the restricted user and by an all-permissive control user on a freshly reset tree: "
        "denied <=> 550 + tree and PWD unchanged; allowed <=> same replies and same tree as the control.  distinct = distinct "
        "(table, verb, target, alias, outcome); non-trivial = the table has an entry below the root.")
RULE += ("  " + 'Also: allowed relative transfers with a CWD between mark and data connection give the same result as without the move; the same probe on a connection that another account used before (and looked at the path) gives the same result as on a fresh connection.')
RULE += ("  " + 'Also (round 10): the same relative argument given by another account from another directory on this connection, re-login, the argument again at once from the home directory: replies and tree as on a fresh connection (after_relogin_elsewhere).')
RULE += ("  " + 'Also (round 11): one User object asked 800 questions in a row (400 of them about paths nobody asked before).')
ASSUMPTIONS = ["ties between entries with the same path but different flags accept either entry", "MemoryPathIO back end"]
REQUIRED_MONITORS = ["function_level", "wire_denied", "wire_allowed"]
ANCHOR_FUNCTIONS = ['server.py:User.get_permissions', 'server.py:PathPermissions.__call__.<locals>.wrapper', 'server.py:Permission.is_parent']
EXHAUSTIVE = {"quick": False, "thorough": False}

PERM_PATHS = ["/", "/pub", "/pub/in", "/pub/in/deep", "/priv", "/priv/x", "/ghost", "/pub/in/f.txt", "/pub/other"]
TREE = {"/pub": DIR, "/pub/in": DIR, "/pub/in/deep": DIR, "/pub/in/deep/f.txt": b"deep", "/pub/in/f.txt": b"in-file",
        "/pub/other": DIR, "/pub/f.txt": b"pub-file", "/priv": DIR, "/priv/x": DIR, "/priv/x/f.txt": b"x-file", "/priv/f.txt": b"priv-file",
        "/top.txt": b"top", "/pub/in/empty": DIR, "/priv/empty": DIR}
UNIVERSE = sorted(set(list(TREE) + ["/", "/ghost", "/ghost/y", "/pub/new", "/priv/x/new", "/pub/in/deep/new", "/pubx", "/pub/in2", "/new"]))

READ_VERBS = ["CWD", "CDUP", "LIST", "MLSD", "MLST", "RETR"]
WRITE_VERBS = ["MKD", "RMD", "DELE", "RNFR", "RNTO", "STOR", "APPE"]


def oracle(table, path):
    """(readable, writable) or None when tied entries disagree.  table: list of (path, r, w)."""
    best = None
    for p, r, w in table:
        if path == p or p == "/" or path.startswith(p.rstrip("/") + "/"):
            d = len([x for x in p.split("/") if x])
            if best is None or d > best[0]:
                best = (d, {(r, w)})
            elif d == best[0]:
                best[1].add((r, w))
    if best is None:
        return (True, True)
    if len(best[1]) > 1:
        return None
    return next(iter(best[1]))


def aliases(target, rng):
    parts = [x for x in target.split("/") if x]
    out = [("plain", target, None)]
    if parts:
        i = rng.randrange(len(parts) + 1)
        d = parts[:i] + ["zz", ".."] + parts[i:]
        out.append(("detour", "/" + "/".join(d), None))
        out.append(("dot", "/./" + "/".join(parts), None))
        out.append(("slashes", "//" + "//".join(parts), None))
        # relative from the parent directory when it exists in the tree
        par = "/" + "/".join(parts[:-1])
        out.append(("relative", parts[-1], par))
        out.append(("updown", "../" * 3 + "/".join(parts), "/pub"))
    return out


def listing_names(verb, data):
    """names only: time stamps of a re-populated tree differ from run to run"""
    out = []
    for ln in (data or b"").split(b"\r\n"):
        if ln:
            out.append(ln.split(b"; ", 1)[-1] if verb == "MLSD" else ln.rsplit(b" ", 1)[-1])
    return sorted(out)


def make_users(table):
    perms = [aioftp.Permission(p, readable=r, writable=w) for p, r, w in table]
    return [aioftp.User("t", "pw", base_path="/", permissions=perms), aioftp.User("c", "pw", base_path="/")]


async def wire(net, hyg, plan):
    rng = random.Random(plan["seed"])
    table = [tuple(x) for x in plan["table"]]
    w = W.World(net, users=make_users(table))
    await w.start()
    w.populate(TREE)
    state = w.server.path_io_factory.state
    viol = []
    mon = {"wire_denied": 0, "wire_allowed": 0, "skipped_ties": 0}
    sigs = []
    sample = []

    def reset():
        state[0].content = []
        memory_populate(state, TREE)

    async def attempt(user, verb, arg, cwd, moved=None, after=None):
        reset()
        s = Session(net, 2121, name=user)
        if isinstance(after, tuple):
            # the other account had left its home directory and looked at the same (relative) argument from there; the re-login
            # puts the session back into the home directory, and the argument is given again at once
            who_, away_ = after
            await s.run([["connect"], ["login", who_, "pw"], ["cmd", "CWD " + away_], ["cmd", "MLST " + arg], ["login", user, "pw"]])
        elif after:
            # the same control connection was used by another account before, which looked at the same path
            await s.run([["connect"], ["login", after, "pw"]])
            if cwd:
                await s.run([["cmd", "CWD " + cwd]])
            await s.run([["cmd", "MLST " + arg], ["cmd", "MLST " + (cwd or "/")], ["login", user, "pw"]])
        else:
            await s.run([["connect"], ["login", user, "pw"]])
        if cwd:
            await s.run([["cmd", "CWD " + cwd]])
            if s.outcomes[-1] != ["250"]:
                s.peer.cut("fin")
                return None
        before = len(s.outcomes)
        tree0 = w.tree()
        if verb in ("LIST", "MLSD", "RETR", "STOR", "APPE"):
            if moved:
                await s.run([["epsv"], ["xfer", verb, arg, 7, "after", 0, None, 0, ["CWD " + moved]]])
            else:
                await s.run([["epsv"], ["xfer", verb, arg, 7]])
            codes = s.outcomes[before + 1:]
        elif verb == "RNTO":
            await s.run([["cmd", "RNFR /top.txt"], ["cmd", "RNTO " + arg]])
            codes = s.outcomes[before + 1:]
        elif verb == "CDUP":
            await s.run([["cmd", "CDUP"]])
            codes = s.outcomes[before:]
        else:
            await s.run([["cmd", f"{verb} {arg}"]])
            codes = s.outcomes[before:]
        pwd = None
        if s.alive:
            r = await s.peer.cmd("PWD")
            pwd = " ".join(r.lines) if r not in (None, "EOF") else str(r)
        tree1 = w.tree()
        s.peer.cut("fin")
        await net.settle()
        return {"codes": codes, "pwd": pwd, "changed": tree1 != tree0, "tree": tree1,
                "cwd0": cwd or "/", "downloads": [[d[0], d[2] if d[0] == "RETR" else listing_names(d[0], d[2])] for d in s.downloads]}

    try:
        probes = plan["probes"]
        for verb, target in probes:
            if verb == "CDUP":
                # target = the directory we go up *to*; start from a child of it
                kids = [p for p in TREE if TREE[p] == DIR and p.rsplit("/", 1)[0] == (target if target != "/" else "")]
                if not kids:
                    continue
                start = kids[0]
                # reaching the start directory itself needs read permission there
                if oracle(table, start) in (None, (False, True), (False, False)):
                    continue
                variants = [("plain", "", start)]
            else:
                variants = aliases(target, rng)
            need = "r" if verb in READ_VERBS else "w"
            perm = oracle(table, target)
            if verb == "RNTO" and oracle(table, "/top.txt") in (None, (True, False), (False, False)):
                continue  # the RNFR half would be refused first
            if perm is None:
                mon["skipped_ties"] += 1
                continue
            allowed = perm[0] if need == "r" else perm[1]
            for label, arg, cwd in variants:
                if cwd and (oracle(table, cwd) is None or not oracle(table, cwd)[0]):
                    continue
                got = await attempt("t", verb, arg, cwd)
                ctl = await attempt("c", verb, arg, cwd)
                if got is None or ctl is None:
                    continue
                final = got["codes"][-1][-1] if got["codes"] and got["codes"][-1] else None
                finals = [c for c in (got["codes"][-1] if got["codes"] else []) if c.isdigit()]
                sigs.append(sig_of([plan["table"], verb, target, label, got["codes"]]))
                where = (f"table {table} verb {verb} target {target} spelled {arg!r} from cwd {cwd or '/'} "
                         f"(oracle: nearest entry gives r={perm[0]} w={perm[1]})")
                if not allowed:
                    mon["wire_denied"] += 1
                    if finals != ["550"] or got["changed"] or (got["pwd"] is not None and f'"{got["cwd0"]}"' not in got["pwd"]):
                        kind = "denied-but-served" if finals != ["550"] else "denied-but-changed"
                        viol.append({"key": f"{kind}:{verb}:{label}",
                                     "msg": f"{where}: expected 550 and no change, got {got['codes']} changed={got['changed']} pwd={got['pwd']}"})
                else:
                    mon["wire_allowed"] += 1
                    if got["codes"] != ctl["codes"] or got["tree"] != ctl["tree"] or got["pwd"] != ctl["pwd"]:
                        viol.append({"key": f"allowed-but-differs-from-control:{verb}:{label}",
                                     "msg": f"{where}: got {got['codes']} pwd={got['pwd']}, control {ctl['codes']} pwd={ctl['pwd']}"})
                if label == "plain" and verb != "CDUP":
                    # ... and after a re-login on a connection on which the other account has touched the same path
                    again = await attempt("t", verb, arg, cwd, after="c")
                    mon["after_relogin"] = mon.get("after_relogin", 0) + 1
                    if again is not None and (again["codes"] != got["codes"] or again["tree"] != got["tree"]):
                        viol.append({"key": f"permission-differs-after-relogin:{verb}",
                                     "msg": f"{where}: as 't' on a fresh connection {got['codes']}; as 't' after user 'c' had used the "
                                            f"connection and looked at the path: {again['codes']}"})
                if label == "plain" and verb != "CDUP" and arg.startswith("/") and len(arg) > 1:
                    # ... and the same argument spelled relative to the home directory, after another login on this connection had
                    # given the very same text from another directory
                    rel_ = arg[1:]
                    fresh = await attempt("t", verb, rel_, None)
                    moved_ = await attempt("t", verb, rel_, None, after=("c", "/pub/in" if not arg.startswith("/pub/in") else "/priv"))
                    mon["after_relogin_elsewhere"] = mon.get("after_relogin_elsewhere", 0) + 1
                    if fresh is not None and moved_ is not None and (fresh["codes"] != moved_["codes"] or fresh["tree"] != moved_["tree"]):
                        viol.append({"key": f"permission-differs-after-relogin:{verb}",
                                     "msg": f"{where}: as 't' on a fresh connection {verb} {rel_!r} -> {fresh['codes']}; after user 'c' had given "
                                            f"the same argument from another directory on this connection: {moved_['codes']}"})
                if (allowed and label == "relative" and verb in ("LIST", "MLSD", "RETR", "STOR", "APPE") and got["codes"]
                        and got["codes"][-1][:1] == ["150"]):
                    # the working directory changes between the mark and the data connection: the transfer is still the one
                    # that was authorised - same result as without the move (apart from the final cwd)
                    dirs = [p for p in sorted(TREE) if TREE[p] == DIR and p != (cwd or "/") and oracle(table, p) not in (None,)
                            and oracle(table, p)[0]]
                    if dirs:
                        dest = rng.choice(dirs)
                        mv = await attempt("t", verb, arg, cwd, moved=dest)
                        mon["moved_between_mark_and_data"] = mon.get("moved_between_mark_and_data", 0) + 1
                        if mv is not None:
                            plain = [[c for c in step if not c.startswith("b:")] for step in mv["codes"]]
                            if plain != got["codes"] or mv["tree"] != got["tree"] or mv["downloads"] != got["downloads"]:
                                viol.append({"key": f"authorised-location-not-the-one-used:{verb}",
                                             "msg": f"{where}; CWD {dest} between the 150 mark and the data connection: replies "
                                                    f"{mv['codes']} vs {got['codes']} without the move, same tree: {mv['tree'] == got['tree']}, "
                                                    f"same data: {mv['downloads'] == got['downloads']}"})
                if len(sample) < 6:
                    sample.append({"verb": verb, "target": target, "alias": arg, "cwd": cwd, "allowed": allowed, "codes": got["codes"]})
        await w.stop()
        return {"violations": viol, "monitors": mon, "sigs": sigs, "sample": {"table": plan["table"], "probes": sample}}
    finally:
        w.cleanup()


def function_level(plan):
    rng = random.Random(plan["seed"])
    viol = []
    n = 0
    loop = asyncio.new_event_loop()
    try:
        for t in range(plan["tables"]):
            table = rand_table(rng)
            user = make_users(table)[0]
            for path in UNIVERSE:
                want = oracle(table, path)
                if want is None:
                    continue
                for arg in (path, pathlib.PurePosixPath(path)):
                    n += 1
                    try:
                        got = loop.run_until_complete(user.get_permissions(arg))
                    except Exception as e:
                        viol.append({"key": "get_permissions-raises", "msg": f"table {table} path {path}: {e!r}"})
                        break
                    if (bool(got.readable), bool(got.writable)) != want:
                        viol.append({"key": "get_permissions-differs",
                                     "msg": f"table {table} path {path}: got r={got.readable} w={got.writable} from {got!r}, oracle {want}"})
                        break
        # one User object asked about many distinct paths, as a server that has been up for a while does: the answer for a path
        # does not depend on how many others were asked before
        table = rand_table(rng)
        user = make_users(table)[0]
        asked = 0
        for round_ in range(2):
            for i in range(400):
                base_ = rng.choice(UNIVERSE)
                path = (base_.rstrip("/") + f"/job{i:04d}") if round_ == 0 else base_
                want = oracle(table, path)
                if want is None:
                    continue
                n += 1
                asked += 1
                try:
                    got = loop.run_until_complete(user.get_permissions(pathlib.PurePosixPath(path)))
                except Exception as e:
                    viol.append({"key": "get_permissions-raises", "msg": f"table {table} path {path}: {e!r}"})
                    break
                if (bool(got.readable), bool(got.writable)) != want:
                    viol.append({"key": "get_permissions-differs-after-many-paths",
                                 "msg": f"table {table} path {path}, the {asked}-th distinct question to this User object: got r={got.readable} "
                                        f"w={got.writable} from {got!r}, oracle {want}"})
                    break
    finally:
        loop.close()
    return {"violations": viol[:5], "monitors": {"function_level": n}, "sigs": [sig_of(["f", plan["seed"]])],
            "sample": {"function_level_tables": plan["tables"], "paths": len(UNIVERSE)}}


def rand_table(rng):
    k = rng.randint(1, 6)
    t = []
    for _ in range(k):
        t.append((rng.choice(PERM_PATHS), rng.random() < 0.55, rng.random() < 0.5))
    rng.shuffle(t)
    return t


def run_case(case):
    if case["kind"] == "func":
        return function_level(case)

    async def main(net, hyg):
        return await wire(net, hyg, case)
    res, info = W.run(main, seed=case["seed"], net_kwargs=dict(latency=0.0005))
    if res is None:
        return W.failed(info)
    for v in res["violations"]:
        v["replay_case"] = case
    return res


def gen_cases(tier, seed):
    rng = random.Random(seed * 131 + 7)
    cases = [{"kind": "func", "seed": seed * 1000 + i, "tables": 40 if tier == "quick" else 400} for i in range(16)]
    ntab = 60 if tier == "quick" else 4000
    targets_r = ["/pub", "/pub/in", "/pub/in/deep", "/priv", "/priv/x", "/"]
    for i in range(ntab):
        table = rand_table(rng) if i >= 6 else [
            [("/", False, False), ("/pub", True, False), ("/pub/in", True, True), ("/pub/in/deep", False, True)],
            [("/pub/in/deep", True, True), ("/pub", False, False)],
            [("/priv", False, False), ("/priv/x", True, True), ("/", True, True)],
            [("/pub/in", False, False)],
            [("/", True, False)],
            [("/pub", True, True), ("/pub", False, False), ("/priv", False, True)]][i]
        probes = []
        for verb in READ_VERBS + WRITE_VERBS:
            if verb in ("CWD", "LIST", "MLSD", "CDUP"):
                tg = rng.sample(targets_r, 2)
            elif verb == "MLST":
                tg = rng.sample(["/pub/in/f.txt", "/priv/x", "/pub/in/deep/f.txt", "/top.txt", "/priv/f.txt"], 2)
            elif verb == "RETR":
                tg = rng.sample(["/pub/in/f.txt", "/priv/x/f.txt", "/pub/in/deep/f.txt", "/top.txt", "/pub/f.txt"], 2)
            elif verb == "MKD":
                tg = rng.sample(["/pub/new", "/priv/x/new", "/pub/in/deep/new", "/new", "/ghost/y"], 2)
            elif verb == "RMD":
                tg = ["/pub/in/empty", "/priv/empty"]
            elif verb in ("DELE", "RNFR"):
                tg = rng.sample(["/pub/in/f.txt", "/priv/x/f.txt", "/pub/in/deep/f.txt", "/priv/f.txt", "/pub/f.txt"], 2)
            elif verb == "RNTO":
                tg = rng.sample(["/pub/new", "/priv/x/new", "/pub/in/deep/new", "/new"], 2)
            else:
                tg = rng.sample(["/pub/new", "/priv/x/new", "/pub/in/deep/f.txt", "/pub/in/f.txt", "/new", "/priv/f.txt"], 2)
            probes += [[verb, t] for t in tg]
        cases.append({"kind": "wire", "seed": seed * 7919 + i, "table": [list(x) for x in table], "probes": probes})
    return cases
