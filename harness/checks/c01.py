"""C01 - transferred bytes are exact (STOR / APPE / RETR, whole or from a restart offset)."""

import asyncio
import random

from .. import boot  # noqa: F401
from .. import world as W
from ..corpus import payload_bytes
from ..runner import sig_of
import aioftp

PROPERTY = "C01"
LEVEL = "exploration"
RULE = ("real aioftp client <-> server transfers on the virtual-time network; sampled product of: operation {STOR, APPE, STOR@k, "
        "APPE@k, RETR, RETR@k}, offset k {0, inside, at end, beyond end}, payload size {0, 1, bs-1, bs, bs+1, k*bs+-1, "
        "multi-block} relative to the server block size {1, 2, 7, 512, 8192, 65536}, content {position-coded, all 256 byte "
        "values, CR/LF/NUL/IAC runs, random}, client write-chunk / read-size sequences, MSS {1, 3, 7, 64, 536, 1460, random per "
        "segment} and latency per channel, EPSV vs PASV, back end {memory, PathIO, AsyncPathIO}, throttles off/on.  Oracle: "
        "byte model of the file; after the completion reply a second session re-reads it (RETR, MLST size, MLSD size, LIST "
        "size); when the 226 of an upload is written the back-end file must already be closed.  distinct = distinct "
        "(op, sizes, offset, block size, chunking, segmentation, back end) tuples; non-trivial = payload or file >= 2 bytes.")
RULE += ("  " + 'Also: a back end returning short reads; 2-3 further sessions downloading the stored file at the same time; read() without a count must return everything up to end of file; client-side limits with one big write.')
RULE += ("  " + 'Also: a history of earlier operations on the same file (STOR/APPE at offsets, DELE, replace by rename) tracked by the byte model; an observer session connected throughout; another session appending while several download.')
RULE += ("  " + 'Also (round 7): another session looks at the file (MLST, MLSD, LIST) between two blocks of an upload; limits of 0 ("not limited") spelled out on both sides.')
RULE += ("  " + 'Also (round 8): raw peers that read their download slowly or pause near its end, server with socket_timeout (226 only with every byte delivered); REST, the transfer command and other commands written in one piece on back ends whose calls suspend (the bytes are those of the commands in their order).')
ASSUMPTIONS = ["REST+STOR/APPE on an existing file overwrites in place from the offset (what tests/test_restart.py fixes); "
               "REST beyond the end pads with NUL bytes when something is written",
               "REST on a missing file is an error (451) on every back end"]
REQUIRED_MONITORS = ["upload_model", "download_model", "second_session", "reply_after_close", "concurrent_readers"]
ANCHOR_FUNCTIONS = ['server.py:Server.stor.<locals>.stor_worker', 'server.py:Server.retr.<locals>.retr_worker', 'client.py:Client.get_stream', 'common.py:AsyncStreamIterator.__anext__']
EXHAUSTIVE = {"quick": False, "thorough": False}

CONTENT = ["pos", "all256", "crlf", "iac", "random", "zeros"]


def make_content(kind, n, rng):
    if kind == "pos":
        return payload_bytes(n, rng.randrange(1000))
    if kind == "all256":
        return (bytes(range(256)) * (n // 256 + 1))[:n]
    if kind == "crlf":
        return (b"\r\n\n\r\r\n\0\r\0\n" * (n // 10 + 1))[:n]
    if kind == "iac":
        return (b"\xff\xff\xf4\xf2\xff\xfb\x00\xff\r\n" * (n // 10 + 1))[:n]
    if kind == "zeros":
        return b"\0" * n
    return bytes(rng.getrandbits(8) for _ in range(n))


def sizes_around(bs, rng):
    opts = {0, 1, 2, bs - 1, bs, bs + 1, 2 * bs - 1, 2 * bs, 2 * bs + 1, 3 * bs + 17, 5 * bs + 1}
    opts = sorted(x for x in opts if 0 <= x <= 300000)
    return rng.choice(opts)


def chunks(n, rng):
    """a sequence of chunk sizes summing to n"""
    mode = rng.choice(["one", "small", "mixed", "bs"])
    out = []
    left = n
    while left > 0:
        if mode == "one":
            c = left
        elif mode == "small":
            c = rng.choice([1, 2, 3, 5])
        elif mode == "bs":
            c = rng.choice([512, 8192])
        else:
            c = rng.choice([1, 7, 100, 4096, 8192, 70000])
        c = min(c, left)
        out.append(c)
        left -= c
        if len(out) > 400:
            out.append(left)
            break
    return [c for c in out if c > 0]


async def transfer(net, hyg, plan):
    rng = random.Random(plan["seed"])
    bs = plan["block_size"]
    old = make_content(plan["old_kind"], plan["old_size"], rng) if plan["old_size"] is not None else None
    payload = make_content(plan["kind"], plan["size"], rng)
    tree = {"/d": "<DIR>"}
    if old is not None:
        tree["/d/f.bin"] = old
    skw = {}
    ckw = {}
    if plan.get("throttle"):
        t = plan["throttle"]
        skw.update({k: v for k, v in t.items() if k.startswith("s_")})
        skw = {k[2:]: v for k, v in skw.items()}
        ckw = {k[2:]: v for k, v in t.items() if k.startswith("c_")}
    w = W.World(net, tree=tree, backend=plan["backend"], block_size=bs, **skw)
    await w.start()
    if plan.get("backend_delay"):
        # a back end whose operations really suspend (as AsyncPathIO's do): close/write/open take virtual time
        bd = plan["backend_delay"]
        w.ctl.delay = lambda op, path, n: bd if op in ("close", "write", "open", "read") else 0
    if plan.get("short_reads"):
        srng = random.Random(plan["seed"] + 5)
        cap = plan["short_reads"]
        w.ctl.read_cap = lambda n: srng.choice([cap, n, max(1, n // 3), 1]) if n > 1 else n
    viol = []
    mon = {"upload_model": 0, "download_model": 0, "second_session": 0, "reply_after_close": 0}
    lat = plan["lat"]
    mss = plan["mss"]

    def policy(conn):
        conn.mss = mss[conn.id % len(mss)]
        conn.latency = lat[conn.id % len(lat)]
    net.conn_policy = policy

    # ordering monitor: when the completion reply of the upload is written the file is closed
    orig_wr = w.server.write_response

    async def wr(stream, code, lines="", list=False):
        if code == "226" and state.get("uploading"):
            mon["reply_after_close"] += 1
            try:
                port_ = stream.writer.transport.get_extra_info("peername")[1]
            except Exception:
                port_ = None
            # the session that gets this 226 must have closed what it opened (other sessions may be reading the file meanwhile,
            # and their own 226 says nothing about the upload)
            writing = [h for h in w.ctl.open_handles if h[3] == port_]
            if writing:
                viol.append({"key": "226-before-file-closed",
                             "msg": f"226 written while back-end handles are open: {writing[:2]}"})
        return await orig_wr(stream, code, lines, list)
    w.server.write_response = wr
    state = {}
    try:
        c = aioftp.Client(path_io_factory=aioftp.MemoryPathIO, passive_commands=(plan["passive"],), **ckw)
        await c.connect("127.0.0.1", 2121)
        await c.login()
        op = plan["op"]
        k = plan["offset"]
        where = (f"{op} offset={k} size={plan['size']} old={plan['old_size']} bs={bs} kind={plan['kind']} backend={plan['backend']} "
                 f"mss={mss} passive={plan['passive']} throttle={plan.get('throttle')} history={plan.get('history')} "
                 f"observer={plan.get('observer')}")
        c0 = None
        if plan.get("observer"):
            # a session that is connected all the time and has looked at the file before anything happens to it
            c0 = aioftp.Client(path_io_factory=aioftp.MemoryPathIO, passive_commands=(plan["passive2"],))
            await c0.connect("127.0.0.1", 2121)
            await c0.login()
            if old is not None:
                await c0.stat("/d/f.bin")
                async with c0.download_stream("/d/f.bin") as s0:
                    async for _b in s0.iter_by_block(4096):
                        pass
            await c0.list("/d")
        for hop, hk, hlen in plan.get("history") or []:
            # earlier operations on the same file (by the uploading session), tracked by the same byte model
            hp = make_content(plan["kind"], hlen, rng)
            if hop == "DELE":
                if old is not None:
                    await c.remove_file("/d/f.bin")
                old = None
            elif hop == "REPLACE":
                async with c.upload_stream("/d/tmp.bin") as sh:
                    await sh.write(hp)
                if old is not None:
                    await c.remove_file("/d/f.bin")
                await c.rename("/d/tmp.bin", "/d/f.bin")
                old = hp
            else:
                if hk and (old is None or not hp):
                    hk = 0
                if hk:
                    old = old[:hk] + b"\0" * max(0, hk - len(old)) + hp + old[hk + len(hp):]
                elif hop == "APPE":
                    old = (old or b"") + hp
                else:
                    old = hp
                async with (c.upload_stream if hop == "STOR" else c.append_stream)("/d/f.bin", offset=hk) as sh:
                    await sh.write(hp)
            if w.tree().get("/d/f.bin") != old:
                viol.append({"key": f"stored-bytes-differ:history:{hop}", "msg": f"{where}: after the earlier {hop} the back end holds "
                                                                                 f"{describe(w.tree().get('/d/f.bin'))}, expected {describe(old)}"})
                return viol, mon
        if op in ("STOR", "APPE"):
            # model
            if k:
                if old is None:
                    want = None   # error expected
                elif not payload:
                    want = old
                else:
                    base = old[:k] + b"\0" * max(0, k - len(old))
                    want = base + payload + old[k + len(payload):]
            elif op == "APPE":
                want = (old or b"") + payload
            else:
                want = payload
            opener = c.upload_stream if op == "STOR" else c.append_stream
            state["uploading"] = True
            err = None
            mid_reader = None
            reading = asyncio.Event()

            async def read_meanwhile():
                # another session downloads the file while the upload is under way (whatever it gets is not judged; what
                # everybody sees after the completion reply is)
                cm = aioftp.Client(path_io_factory=aioftp.MemoryPathIO)
                await cm.connect("127.0.0.1", 2121)
                await cm.login()
                try:
                    # looking at the file (MLST, MLSD, LIST) while it is being written is reading too: it changes nothing
                    await cm.stat("/d/f.bin")
                    await cm.list("/d")
                    await cm.list("/d", raw_command="LIST")
                    mon["stat_during_upload"] = mon.get("stat_during_upload", 0) + 1
                except aioftp.StatusCodeError:
                    pass
                try:
                    async with cm.download_stream("/d/f.bin") as sm:
                        reading.set()
                        async for _b in sm.iter_by_block(512):
                            pass
                except aioftp.StatusCodeError:
                    pass
                reading.set()
                await cm.quit()
            try:
                async with opener("/d/f.bin", offset=k) as s:
                    pos = 0
                    for ci, n in enumerate(plan["chunks"]):
                        await s.write(payload[pos:pos + n])
                        pos += n
                        if plan.get("read_during_upload") and ci == 0 and old is not None:
                            mid_reader = asyncio.ensure_future(read_meanwhile())
                            try:
                                await asyncio.wait_for(reading.wait(), 5)      # the download has started (its file is open)
                            except asyncio.TimeoutError:
                                pass
            except (aioftp.StatusCodeError, ConnectionError) as e:
                err = e
            state["uploading"] = False
            if mid_reader is not None:
                await asyncio.wait([mid_reader], timeout=30)
                mon["read_during_upload"] = mon.get("read_during_upload", 0) + 1
            mon["upload_model"] += 1
            if want is None:
                refused = isinstance(err, ConnectionError) or (err is not None and "451" in [str(x) for x in err.received_codes])
                if not refused or "/d/f.bin" in w.tree():
                    viol.append({"key": "restart-on-missing-file-not-refused",
                                 "msg": f"{where}: expected 451 and no file, got {err!r}, file present: {'/d/f.bin' in w.tree()}"})
                c.close()
                return viol, mon
            if err is not None:
                viol.append({"key": f"upload-failed:{op}", "msg": f"{where}: {err!r}"[:300]})
                return viol, mon
            # the completion reply has been received: every later observer sees the new content
            got = w.tree().get("/d/f.bin")
            if got != want:
                viol.append({"key": f"stored-bytes-differ:{op}:{'rest' if k else 'whole'}",
                             "msg": f"{where}: stored {describe(got)} expected {describe(want)} {first_diff(got, want)}"})
                return viol, mon
        else:
            want = old
        # second session (or the download under test)
        c2 = aioftp.Client(path_io_factory=aioftp.MemoryPathIO, passive_commands=(plan["passive2"],), **ckw)
        await c2.connect("127.0.0.1", 2121)
        await c2.login()
        off2 = k if op == "RETR" else 0
        buf = bytearray()
        async with c2.download_stream("/d/f.bin", offset=off2) as s:
            i = 0
            rs = plan["reads"]
            to_eof_incomplete = None
            while True:
                n_req = rs[i % len(rs)]
                d = await s.read(n_req)
                i += 1
                if not d:
                    break
                if n_req == -1 and to_eof_incomplete is None:
                    to_eof_incomplete = False
                elif to_eof_incomplete is False:
                    to_eof_incomplete = True    # read(-1) ("until end of file") had returned, yet more data followed
                buf += d
        mon["download_model" if op == "RETR" else "second_session"] += 1
        exp = want[off2:]
        if to_eof_incomplete and rs == [-1]:
            viol.append({"key": "read-to-eof-returned-a-prefix",
                         "msg": f"{where}: stream.read() without a count (read until end of file) returned before the end; the rest "
                                f"came with later calls"})
        if bytes(buf) != exp:
            viol.append({"key": f"downloaded-bytes-differ:{'rest' if off2 else 'whole'}",
                         "msg": f"{where}: downloaded {describe(bytes(buf))} expected {describe(exp)} {first_diff(bytes(buf), exp)}"})
        info = await c2.stat("/d/f.bin")
        mon["second_session"] += 1
        if str(info.get("size")) != str(len(want)):
            viol.append({"key": "stat-size-differs", "msg": f"{where}: MLST size {info.get('size')} expected {len(want)}"})
        for raw in (None, "LIST"):
            ls = await c2.list("/d", raw_command=raw)
            sz = [i.get("size") for p, i in ls if p.name == "f.bin"]
            if sz != [str(len(want))]:
                viol.append({"key": "listing-size-differs", "msg": f"{where}: {raw or 'MLSD'} size {sz} expected {len(want)}"})
        if plan.get("concurrent_readers"):
            # "every later download on any session": several sessions fetch the file at the same time, interleaved block by
            # block (small reads, yielding between them)
            async def fetch(j):
                cj = aioftp.Client(path_io_factory=aioftp.MemoryPathIO, passive_commands=(plan["passive2"],))
                await cj.connect("127.0.0.1", 2121)
                await cj.login()
                got = bytearray()
                async with cj.download_stream("/d/f.bin") as sj:
                    while True:
                        dj = await sj.read(plan["reads"][0] if plan["reads"][0] > 1 else 100)   # (-1 -> 100: interleaving needs blocks)
                        if not dj:
                            break
                        got += dj
                        await asyncio.sleep(0.0003 * (j + 1))
                await cj.quit()
                return bytes(got)
            extra = b""

            async def append_meanwhile():
                # ... while yet another session appends to the file (the readers deliver the old or the new content, whole)
                ca = aioftp.Client(path_io_factory=aioftp.MemoryPathIO)
                await ca.connect("127.0.0.1", 2121)
                await ca.login()
                await asyncio.sleep(0.0007)
                async with ca.append_stream("/d/f.bin") as sa:
                    await sa.write(b"+tail")
                await ca.quit()
            if plan.get("append_meanwhile"):
                extra = b"+tail"
                res = await asyncio.gather(*[fetch(j) for j in range(plan["concurrent_readers"])], append_meanwhile(), return_exceptions=True)
                outs, app = res[:-1], res[-1]
                if isinstance(app, Exception):
                    viol.append({"key": "append-while-others-download-fails",
                                 "msg": f"{where}: APPE by another session while {plan['concurrent_readers']} sessions download the file: {app!r}"})
                    extra = b""
                for o in outs:
                    if isinstance(o, Exception):
                        raise o
                if w.tree().get("/d/f.bin") != want + extra:
                    viol.append({"key": "stored-bytes-differ:append-meanwhile",
                                 "msg": f"{where}: after the concurrent APPE the back end holds {describe(w.tree().get('/d/f.bin'))}, "
                                        f"expected {describe(want + extra)}"})
            else:
                outs = await asyncio.gather(*[fetch(j) for j in range(plan["concurrent_readers"])])
            mon["concurrent_readers"] = mon.get("concurrent_readers", 0) + 1
            for j, got in enumerate(outs):
                if extra and got in (want, want + extra):
                    continue
                if got != want:
                    viol.append({"key": "downloaded-bytes-differ:concurrent-readers",
                                 "msg": f"{where}: {plan['concurrent_readers']} sessions downloading the file at the same time: reader {j} "
                                        f"got {describe(got)} expected {describe(want)} {first_diff(got, want)}"})
                    break
        if plan.get("concurrent_readers") and plan.get("append_meanwhile") and w.tree().get("/d/f.bin") == want + b"+tail":
            want = want + b"+tail"
        if c0 is not None:
            mon["observer_session"] = mon.get("observer_session", 0) + 1
            got0 = bytearray()
            async with c0.download_stream("/d/f.bin") as s0:
                async for b0 in s0.iter_by_block(4096):
                    got0 += b0
            info0 = await c0.stat("/d/f.bin")
            if bytes(got0) != want or str(info0.get("size")) != str(len(want)):
                viol.append({"key": "stale-content-on-an-older-session",
                             "msg": f"{where}: a session connected before the change downloads {describe(bytes(got0))} / stat size "
                                    f"{info0.get('size')}, expected {describe(want)} {first_diff(bytes(got0), want)}"})
            await c0.quit()
        await c2.quit()
        if op in ("STOR", "APPE"):
            await c.quit()
        return viol, mon
    finally:
        await w.stop()
        w.cleanup()


def describe(b):
    if b is None:
        return "nothing"
    return f"{len(b)}B"


def first_diff(a, b):
    if a is None or b is None:
        return ""
    for i, (x, y) in enumerate(zip(a, b)):
        if x != y:
            return f"(first difference at byte {i}: {a[i:i+8].hex()} vs {b[i:i+8].hex()})"
    return f"(common prefix {min(len(a), len(b))})"


async def slow_reader(net, hyg, plan):
    """A peer that reads its download slowly but steadily, from a server with socket_timeout configured: whatever the timing,
    a transfer answered 226 has delivered every byte (one that the server gives up is answered 4xx and has delivered a prefix)."""
    from ..rawpeer import RawPeer
    viol = []
    mon = {"slow_reader": 1}
    content = make_content(plan["kind"], plan["size"], random.Random(plan["seed"]))
    w = W.World(net, tree={"/d": "<DIR>", "/d/f.bin": content}, backend="memory", block_size=plan["block_size"],
                socket_timeout=plan["socket_timeout"])
    await w.start()
    try:
        p = RawPeer(net, 2121)
        await p.connect()
        await p.cmd("USER anonymous")
        await p.cmd("TYPE I")
        port = p.parse_epsv(await p.cmd("EPSV"))
        dr, dw = await p.open_data(port)
        p.send("RETR /d/f.bin")
        got = bytearray()
        paused = False
        while True:
            try:
                d = await asyncio.wait_for(dr.read(plan["chunk"]), 60)
            except (ConnectionError, asyncio.TimeoutError):
                break
            if not d:
                break
            got += d
            if plan.get("pause_at") and not paused and len(got) >= len(content) - plan["pause_at"]:
                # the peer takes a break longer than the time-out when only the last stretch is missing, then goes on reading
                paused = True
                await asyncio.sleep(plan["pause"])
            await asyncio.sleep(plan["gap"])
        dw.close()
        codes = []
        for _ in range(2):
            r = await p.read_reply(wait=30)
            if r in (None, "EOF"):
                codes.append(str(r))
                break
            codes.append(r.code)
            if r.code[0] != "1":
                break
        where = (f"RETR of {len(content)} bytes by a peer reading {plan['chunk']} bytes every {plan['gap']}s "
                 f"(~{int(plan['chunk'] / plan['gap'])} B/s), pausing {plan.get('pause')}s when {plan.get('pause_at')} bytes are missing, "
                 f"server socket_timeout={plan['socket_timeout']}, block {plan['block_size']}")
        if codes[-1:] == ["226"]:
            if bytes(got) != content:
                viol.append({"key": "completed-but-truncated:slow-reader",
                             "msg": f"{where}: replies {codes}, {len(got)} of {len(content)} bytes delivered {first_diff(bytes(got), content)}"})
        elif not content.startswith(bytes(got)):
            viol.append({"key": "download-not-a-prefix:slow-reader", "msg": f"{where}: replies {codes}, received bytes are not a prefix"})
        mon["slow_reader_completed"] = int(codes[-1:] == ["226"])
        p.cut("fin")
        return viol, mon
    finally:
        await w.stop()
        w.cleanup()


async def pipelined_rest(net, hyg, plan):
    """REST, the transfer command and other commands written in one piece: the bytes that move are those of the commands taken
    one after the other in the order sent (the offset belongs to the transfer command that follows REST directly, and to nothing
    else), also when the back end's calls take their time."""
    from ..rawpeer import RawPeer
    viol = []
    mon = {"pipelined_rest": 1}
    content = make_content(plan["kind"], plan["size"], random.Random(plan["seed"]))
    w = W.World(net, tree={"/d": "<DIR>", "/d/f.bin": content}, backend=plan["backend"], block_size=plan["block_size"])
    net.loop.exec_delay = plan.get("exec_delay", 0.0)
    await w.start()
    if plan.get("backend_delay"):
        w.ctl.delay = lambda op, path, n: plan["backend_delay"]
    try:
        p = RawPeer(net, 2121)
        await p.connect()
        await p.cmd("USER anonymous")
        await p.cmd("TYPE I")
        port = p.parse_epsv(await p.cmd("EPSV"))
        dr, dw = await p.open_data(port)
        k = plan["offset"]
        seq = [c.replace("{k}", str(k)) for c in plan["commands"]]
        p.send("\r\n".join(seq))
        upload = any(c.startswith("STOR") or c.startswith("APPE") for c in seq)
        payload = b"PAYLOAD-" * 3
        if upload:
            dw.write(payload)
            await asyncio.wait_for(dw.drain(), 30)
            dw.close()
            got, st = await p.read_data(dr, wait=30)
        else:
            got, st = await p.read_data(dr, wait=30)
            dw.close()
        codes = []
        while True:
            r = await p.read_reply(wait=3)
            if r in (None, "EOF"):
                break
            codes.append(r.code)
        # sequential meaning of the piece
        rest = 0
        want_data, want_file = None, content
        for c in seq:
            v, _, a = c.partition(" ")
            if v == "REST":
                rest = int(a)
            elif v == "RETR":
                want_data = content[rest:]
                rest = 0
            elif v == "STOR":
                want_file = (content[:rest] + payload + content[rest + len(payload):]) if rest else payload
                rest = 0
            elif v == "APPE":
                want_file = (content[:rest] + payload + content[rest + len(payload):]) if rest else content + payload
                rest = 0
            else:
                rest = 0
        where = f"{seq} written in one piece on {plan['backend']} (file of {len(content)} bytes): replies {codes}"
        if want_data is not None and bytes(got) != want_data:
            viol.append({"key": "pipelined-restart-offset-misapplied:download",
                         "msg": f"{where}: {len(got)} bytes delivered, the commands in their order mean {len(want_data)} {first_diff(bytes(got), want_data)}"})
        have = w.tree().get("/d/f.bin")
        if have != want_file:
            viol.append({"key": "pipelined-restart-offset-misapplied:upload",
                         "msg": f"{where}: the file holds {describe(have)}, the commands in their order mean {describe(want_file)}"})
        p.cut("fin")
        return viol, mon
    finally:
        await w.stop()
        w.cleanup()


def run_case(case):
    out = {"violations": [], "monitors": {}, "sigs": []}
    for plan in case["plans"]:
        async def main(net, hyg, plan=plan):
            if plan.get("scenario") == "slow_reader":
                return await slow_reader(net, hyg, plan)
            if plan.get("scenario") == "pipelined_rest":
                return await pipelined_rest(net, hyg, plan)
            return await transfer(net, hyg, plan)
        res, info = W.run(main, seed=plan["seed"], net_kwargs=dict(latency=0.0005))
        if res is None:
            return W.failed(info, f"plan={plan}")
        viol, mon = res
        for k, v in mon.items():
            out["monitors"][k] = out["monitors"].get(k, 0) + v
        if plan["size"] >= 2 or (plan.get("old_size") or 0) >= 2:
            out["sigs"].append(sig_of({k: plan[k] for k in plan if k != "seed"}))
        for v in viol:
            v["replay_case"] = {"plans": [plan]}
            out["violations"].append(v)
        out.setdefault("sample", {k: plan.get(k) for k in ("op", "offset", "size", "old_size", "block_size", "kind", "backend", "mss", "passive")})
    return out


def gen_cases(tier, seed):
    rng = random.Random(seed * 4099 + 3)
    n = 400 if tier == "quick" else 40000
    plans = []
    for i in range(n):
        bs = rng.choice([1, 2, 7, 512, 8192, 8192, 65536])
        op = rng.choice(["STOR", "APPE", "STOR", "APPE", "RETR", "RETR"])
        size = sizes_around(bs if bs > 2 else 512, rng)
        if bs <= 2:
            size = min(size, 3000)
        old_size = rng.choice([None, 0, 1, 10, sizes_around(bs if bs > 2 else 64, rng)])
        if old_size is not None and bs <= 2:
            old_size = min(old_size, 3000)
        if op == "RETR" and old_size is None:
            old_size = size
        olds = old_size or 0
        offset = rng.choice([0, 0, 0, 1, max(0, olds // 2), olds, olds + 5, olds + 2 * bs + 1])
        if op != "RETR" and rng.random() < 0.5:
            offset = 0
        backend = rng.choices(["memory", "pathio", "async"], [8, 2, 1] if tier == "quick" else [6, 3, 1])[0]
        if backend == "async" and (size > 40000 or olds > 40000 or bs < 512):
            backend = "memory"
        thr = None
        if rng.random() < 0.2 and size + olds < 60000:
            lim = rng.choice([1000, 5000, 50000])
            thr = rng.choice([{"s_read_speed_limit": lim}, {"s_write_speed_limit": lim}, {"c_write_speed_limit": lim},
                              {"c_read_speed_limit": lim}, {"s_read_speed_limit_per_connection": lim, "c_write_speed_limit": 2 * lim},
                              # 0 = "not limited", spelled out on both sides
                              {"s_read_speed_limit": 0, "s_write_speed_limit": 0, "c_read_speed_limit": 0, "c_write_speed_limit": 0},
                              {"s_read_speed_limit_per_connection": 0, "s_write_speed_limit_per_connection": 0}])
        mssc = [1, 3, 7, 64, 536, 1460, 1460, "rand"]
        mss = [rng.choice(mssc) for _ in range(3)]
        if size + olds > 20000:
            mss = [m if m == "rand" or m >= 64 else 536 for m in mss]
        plan = {"seed": seed * 100003 + i, "op": op, "size": size if op != "RETR" else 0, "old_size": old_size, "offset": offset,
                "block_size": bs, "kind": rng.choice(CONTENT), "old_kind": rng.choice(CONTENT), "backend": backend,
                "passive": rng.choice(["epsv", "pasv"]), "passive2": rng.choice(["epsv", "pasv"]),
                "mss": mss, "lat": [rng.choice([0.0002, 0.001, 0.004]) for _ in range(3)],
                "reads": [rng.choice([1, 7, 100, 512, 8192, 65536, -1, -1]) for _ in range(rng.randint(1, 3))], "throttle": thr,
                "backend_delay": rng.choice([0, 0, 0.0007, 0.003]) if bs >= 512 else 0}
        if op == "RETR" and bs >= 7 and rng.random() < 0.3:
            plan["short_reads"] = rng.choice([1, bs // 2, bs - 1, max(1, bs // 8)])
        if rng.random() < 0.25 and bs >= 7:
            plan["concurrent_readers"] = rng.choice([2, 2, 3])
            plan["append_meanwhile"] = rng.random() < 0.4
        if rng.random() < 0.3 and size + olds < 40000:
            plan["observer"] = True
        if op != "RETR" and old_size and rng.random() < 0.4:
            plan["read_during_upload"] = True
        if rng.random() < 0.3 and size + olds < 40000:
            plan["history"] = [[rng.choice(["STOR", "APPE", "STOR", "APPE", "DELE", "REPLACE"]), rng.choice([0, 0, 3, max(0, olds // 3)]),
                                rng.choice([0, 5, 300, bs + 1])] for _ in range(rng.randint(1, 3))]
            if op == "RETR" and plan["history"][-1][0] == "DELE":
                plan["history"].append(["STOR", 0, 700])     # a download needs the file to be there
            if plan["history"][-1][0] == "DELE" and offset:
                plan["history"].append(["APPE", 0, 40])      # so does an upload at a restart offset
        plan["chunks"] = chunks(plan["size"], rng)
        if len(plan["reads"]) and 1 in plan["reads"] and olds + plan["size"] > 5000:
            plan["reads"] = [r if r != 1 else 100 for r in plan["reads"]]
        plans.append(plan)
    # full-factorial core at one block size: op x old size x payload size x offset class
    bs = 512 if seed % 2 == 0 else 64
    grid = [0, 1, bs - 1, bs, bs + 1, 2 * bs]
    j = 0
    for op in ("STOR", "APPE", "RETR"):
        for olds in [None] + grid:
            for size in (grid if op != "RETR" else [0]):
                for oc in ("zero", "inside", "end", "beyond"):
                    if op == "RETR" and olds is None:
                        continue
                    o = olds or 0
                    offset = {"zero": 0, "inside": o // 2, "end": o, "beyond": o + bs + 3}[oc]
                    if oc in ("inside", "end") and offset == 0:
                        continue
                    j += 1
                    if tier == "quick" and oc != "zero" and rng.random() < 0.6:
                        continue
                    plan = {"seed": seed * 13 + j, "op": op, "size": size, "old_size": olds, "offset": offset, "block_size": bs,
                            "kind": CONTENT[j % len(CONTENT)], "old_kind": CONTENT[(j // 3) % len(CONTENT)], "backend": "memory",
                            "passive": "epsv" if j % 2 else "pasv", "passive2": "epsv", "mss": [1460, [7, 64, 536, "rand"][j % 4], 1460],
                            "lat": [0.0005], "reads": [[100], [512], [65536], [1, 511]][j % 4], "throttle": None,
                            "backend_delay": [0, 0.002][j % 2]}
                    plan["chunks"] = chunks(size, rng)
                    plans.append(plan)
    # sequences on one file: patch in the middle, then append / patch / overwrite; delete or replace in between; an older
    # session watching
    j = 0
    for hist in ([["STOR", 3, 5]], [["APPE", 2, 4]], [["STOR", 3, 5], ["APPE", 0, 7]], [["STOR", 0, 900], ["STOR", 10, 3]],
                 [["DELE", 0, 0], ["STOR", 0, 50]], [["REPLACE", 0, 333]], [["APPE", 0, 20], ["REPLACE", 0, 5]]):
        for op, off in (("APPE", 0), ("STOR", 4), ("APPE", 6), ("STOR", 0), ("RETR", 0), ("RETR", 2)):
            for backend in ("memory", "pathio"):
                j += 1
                if tier == "quick" and j % 2 and backend == "pathio":
                    continue
                plan = {"seed": seed * 19 + j, "op": op, "size": 11 if op != "RETR" else 0, "old_size": 40, "offset": off, "block_size": 512,
                        "kind": CONTENT[j % len(CONTENT)], "old_kind": CONTENT[(j + 2) % len(CONTENT)], "backend": backend, "passive": "epsv",
                        "passive2": "epsv", "mss": [1460, 1460, 1460], "lat": [0.0005], "reads": [512], "throttle": None, "backend_delay": 0,
                        "history": hist, "observer": j % 3 == 0}
                plan["chunks"] = [11] if op != "RETR" else []
                plans.append(plan)
    j = 0
    for off, size in ((3, 5), (0, 40), (10, 30), (20, 20)):
        for backend in ("memory", "pathio"):
            j += 1
            plan = {"seed": seed * 23 + j, "op": "STOR", "size": size, "old_size": 40, "offset": off, "block_size": 512,
                    "kind": CONTENT[j % len(CONTENT)], "old_kind": CONTENT[(j + 1) % len(CONTENT)], "backend": backend, "passive": "epsv",
                    "passive2": "pasv", "mss": [1460, 1460, 1460], "lat": [0.0005], "reads": [512], "throttle": None, "backend_delay": 0,
                    "read_during_upload": True, "chunks": [max(1, size // 2), size - max(1, size // 2)] if size > 1 else [size]}
            plans.append(plan)
    # client-side limits with the less common call shapes: read() to end of file in one call, one big write()
    j = 0
    for thr in ({"c_read_speed_limit": 1000}, {"c_read_speed_limit": 5000, "s_write_speed_limit": 20000}, {"c_write_speed_limit": 2000},
                {"c_read_speed_limit": 3000, "c_write_speed_limit": 3000}):
        for op in ("RETR", "STOR", "APPE"):
            for size in (3000, 20000):
                j += 1
                plan = {"seed": seed * 17 + j, "op": op, "size": size if op != "RETR" else 0, "old_size": size if op == "RETR" else 10,
                        "offset": [0, 7][j % 2] if op == "RETR" else 0, "block_size": 8192, "kind": CONTENT[j % len(CONTENT)],
                        "old_kind": CONTENT[(j + 1) % len(CONTENT)], "backend": "memory", "passive": "epsv", "passive2": "pasv",
                        "mss": [1460, 1460, 536], "lat": [0.0005], "reads": [-1], "throttle": thr, "backend_delay": 0}
                plan["chunks"] = [size] if op != "RETR" else []
                plans.append(plan)
    # slow, steady readers against a server with socket_timeout: reading speeds around the one at which the unsent remainder of a
    # finished transfer takes about as long as the time-out to leave
    j = 0
    for T in (0.5, 2.0):
        for size in ((200000, 400000) if tier == "quick" else (70000, 130000, 200000, 400000, 1000000)):
            for speed in ((60000, 100000, 115000, 125000, 200000) if tier == "quick" else (30000, 60000, 80000, 95000, 105000, 115000, 125000, 140000, 200000, 1000000)):
                for chunk in ((4096,) if tier == "quick" else (1024, 4096, 30000)):
                    j += 1
                    plans.append({"scenario": "slow_reader", "seed": seed * 31 + j, "size": size, "socket_timeout": T, "chunk": chunk,
                                  "gap": round(chunk / (speed * 0.5 / T), 5), "block_size": 8192, "kind": CONTENT[j % len(CONTENT)]})
    for T in (0.5, 2.0):
        for size in ((600000,) if tier == "quick" else (300000, 600000, 1000000)):
            # (the peer's own buffers take ~190 KB: the break must come while more than that is missing, and little enough for the
            # server to have written everything)
            for pause_at in ((150000, 190000, 205000, 220000) if tier == "quick" else (100000, 150000, 170000, 190000, 200000, 210000, 220000, 230000, 250000)):
                j += 1
                plans.append({"scenario": "slow_reader", "seed": seed * 31 + j, "size": size, "socket_timeout": T, "chunk": 8192, "gap": 0.0005,
                              "pause_at": pause_at, "pause": 3 * T, "block_size": 8192, "kind": CONTENT[j % len(CONTENT)]})
    for backend, extra in (("memory", {}), ("memory", {"backend_delay": 0.001}), ("async", {"exec_delay": 0.0007}), ("pathio", {})):
        for commands in (["REST {k}", "RETR /d/f.bin", "PWD"], ["REST {k}", "RETR /d/f.bin", "SYST", "NOOP"], ["REST {k}", "SYST", "RETR /d/f.bin"],
                         ["REST {k}", "NOOP", "RETR /d/f.bin", "PWD"], ["REST {k}", "STOR /d/f.bin", "PWD"], ["REST {k}", "PWD", "STOR /d/f.bin"],
                         ["REST {k}", "APPE /d/f.bin", "MLST /d/f.bin"], ["REST 3", "REST {k}", "RETR /d/f.bin", "REST 9"]):
            j += 1
            plans.append({"scenario": "pipelined_rest", "seed": seed * 31 + j, "size": [10240, 300, 70000][j % 3], "offset": [5, 100, 299][j % 3],
                          "backend": backend, "commands": commands, "block_size": 8192, "kind": CONTENT[j % len(CONTENT)], **extra})
    per = 10
    return [{"plans": plans[i:i + per]} for i in range(0, len(plans), per)]
