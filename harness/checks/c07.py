"""C07 - listings and stats report the back end's truth (MLSD, MLST, LIST fallback)."""

import asyncio
import calendar
import datetime
import os
import random
import stat as statmod
import time

from .. import boot  # noqa: F401
from .. import world as W
from ..runner import sig_of
import aioftp
import aioftp.client
import aioftp.server

PROPERTY = "C07"
LEVEL = "exploration"
RULE = ("function level: parse_ls_date(build_list_mtime(m, now), now) on an (m, now) grid - every minute within +-3 days of "
        "each structural boundary (now-half-year, now, New Year, Feb 28/29/Mar 1 in leap and non-leap years), a 6-hourly sweep "
        "over [now-2y, now+1y] and a monthly sweep 1990-2060, for 'now' values at those boundaries, under TZ in {UTC, IST-5:30, "
        "EST5EDT}; full LIST/MLSx lines with sizes 0..2^40.  End to end (virtual network, shimmed clock): generated directories "
        "(0..12 entries, files and dirs, synthetic sizes and mtimes served by a stat-overriding back end) listed through "
        "client.list()/stat() via MLSD/MLST, via raw_command='LIST', and against a server without MLSD/MLST (fallback): entry "
        "multiset, type, size exact; MLSx modify = UTC seconds; LIST modify to ls precision.  Points with |now-m-H| < 1 day "
        "are excluded as the statement allows.  distinct = distinct (m, now, TZ) points / distinct directories; non-trivial = "
        "a point within 3 days of a boundary, or a directory with >= 2 entries.")
RULE += ("  " + "Also: entry names with '; ', '=', ' -> ', date-like prefixes and non-ASCII letters; both sides configured with encoding latin-1; the same directory listed again by the same server after the clock moved; PathIO and AsyncPathIO on real directories of up to 130 entries with utime-set mtimes.")
RULE += ("  " + 'Also (round 7): file-system entries with set-uid / set-gid / sticky bits with and without the execute bit below them; an exception of list() on a readable directory is a violation.')
RULE += ("  " + 'Also (round 8): a Client object in its second life (first: a LIST-only server, or listing before login) learns exact MLSD facts.')
ASSUMPTIONS = ["only C/C.utf8/POSIX locales exist here: the setlocale('C') guard cannot be exercised against another locale",
               "end-to-end clock: aioftp.server.time and aioftp.client.datetime are replaced by shims following a chosen "
               "'now' (a canary checks the shim is effective, otherwise the real clock is used with mtimes relative to it)"]
REQUIRED_MONITORS = ["date_roundtrip", "mlsx_entries", "list_entries", "stat_entries"]
ANCHOR_FUNCTIONS = ['server.py:Server.build_list_mtime', 'client.py:BaseClient.parse_ls_date', 'client.py:BaseClient.parse_mlsx_line', 'client.py:BaseClient.parse_list_line_unix', 'server.py:Server.build_mlsx_string']
EXHAUSTIVE = {"quick": False, "thorough": False}

H = 15778476


def expected_ls(m, now):
    lt = time.localtime(m)
    if now - H < m <= now:
        return time.strftime("%Y%m%d%H%M00", lt)
    return time.strftime("%Y%m%d000000", lt)


def structural_nows(rng, tier):
    years = [2023, 2024, 2025] if tier == "quick" else [1999, 2000, 2001, 2016, 2020, 2023, 2024, 2025, 2027, 2028, 2038, 2049]
    nows = []
    for y in years:
        for (mo, d, hh, mm) in [(1, 1, 0, 0), (1, 1, 0, 1), (12, 31, 23, 59), (2, 28, 12, 0), (3, 1, 0, 30), (7, 1, 3, 0), (8, 30, 0, 0)]:
            nows.append(int(time.mktime((y, mo, d, hh, mm, 7, 0, 0, -1))))
        if calendar.isleap(y):
            nows.append(int(time.mktime((y, 2, 29, 6, 30, 0, 0, 0, -1))))
    if tier == "quick":
        nows = rng.sample(nows, 9)
    nows += [rng.randrange(631152000, 2840140800) for _ in range(3 if tier == "quick" else 12)]
    return nows


def points_for(now, rng, tier):
    pts = []
    step = 60
    span = 3 * 86400
    lt = time.localtime(now)
    anchors = [now - H, now]
    for y in (lt.tm_year - 1, lt.tm_year, lt.tm_year + 1):
        anchors.append(int(time.mktime((y, 1, 1, 0, 0, 0, 0, 0, -1))))
        anchors.append(int(time.mktime((y, 3, 1, 0, 0, 0, 0, 0, -1))) - 86400)
    for a in anchors:
        lo, hi = a - span, a + span
        if tier == "quick":
            # every minute in the inner day, every 7 minutes outside
            pts += list(range(a - 86400, a + 86400, step))
            pts += list(range(lo, a - 86400, 7 * step)) + list(range(a + 86400, hi, 7 * step))
        else:
            pts += list(range(lo, hi, step))
    pts += [now - 2 * 365 * 86400 + i * 21600 + rng.randrange(3600) for i in range(int(3 * 365 * 4))]
    pts += [int(time.mktime((y, mo, 15, 10, 10, 10, 0, 0, -1))) for y in range(1990, 2061) for mo in range(1, 13)]
    pts += [now + s for s in (-1, 0, 1, 59, 60, 61, -59, -60, -61)]
    return pts


def func_case(case):
    os.environ["TZ"] = case["tz"]
    time.tzset()
    rng = random.Random(case["seed"])
    build = aioftp.Server.build_list_mtime
    parse = aioftp.Client.parse_ls_date
    viol = []
    n = skipped = 0
    near = 0
    for now in case["nows"]:
        now_dt = datetime.datetime.fromtimestamp(now)
        for m in points_for(now, rng, case["tier"]):
            if abs(now - m - H) < 86400:
                skipped += 1
                continue
            n += 1
            try:
                s = build(m, now)
                got = parse(s, now=now_dt)
            except Exception as e:
                viol.append({"key": "date-roundtrip-raises", "msg": f"TZ={case['tz']} m={m} now={now}: {e!r}"})
                break
            want = expected_ls(m, now)
            if abs(m - now) < 3 * 86400 or abs(now - m - H) < 3 * 86400:
                near += 1
            if got != want:
                lt = time.localtime(m)
                kind = "year" if got[:4] != want[:4] else ("day" if got[:8] != want[:8] else "time")
                viol.append({"key": f"ls-date-wrong-{kind}",
                             "msg": f"TZ={case['tz']} mtime={m} ({time.strftime('%Y-%m-%d %H:%M:%S', lt)}) now={now} "
                                    f"({now_dt}): server wrote {s!r}, client parsed {got}, expected {want}",
                             "replay_case": dict(case, nows=[now], only_m=m)})
                break
    # the same date strings parsed at different moments of one long-lived process, *without* an explicit `now`
    # (the parser then uses the clock): whatever it remembers between calls must not change the answer
    shim_ok = install_shims()
    if shim_ok:
        for y in sorted({time.localtime(n0).tm_year for n0 in case["nows"]})[:2]:
            seq = [int(time.mktime((y, mo, d, 12, 0, 0, 0, 0, -1))) for (mo, d) in ((1, 10), (3, 1), (6, 30), (9, 15), (12, 28))]
            for now in seq:
                _Clock.now = now
                lt = time.localtime(now)
                for (mo, d, hh, mm) in ((12, 20, 10, 30), (1, 5, 8, 0), (6, 1, 23, 59), (2, 28, 0, 1), (9, 14, 12, 0), (12, 27, 1, 2)):
                    for yy in (lt.tm_year, lt.tm_year - 1):
                        m = int(time.mktime((yy, mo, d, hh, mm, 0, 0, 0, -1)))
                        if not (now - H + 2 * 86400 < m <= now):
                            continue
                        n += 1
                        try:
                            s_ = build(m)          # server side, clock = shim
                            got = parse(s_)        # client side, clock = shim
                        except Exception as e:
                            viol.append({"key": "date-roundtrip-raises", "msg": f"TZ={case['tz']} m={m} now={now}: {e!r}"})
                            continue
                        want = expected_ls(m, now)
                        if got != want:
                            viol.append({"key": "ls-date-depends-on-earlier-calls",
                                         "msg": f"TZ={case['tz']}: {s_!r} listed and parsed at {time.strftime('%Y-%m-%d', lt)} gave {got}, "
                                                f"expected {want} (same process parsed the same strings at earlier dates of {y})"})
        _Clock.now = None
    # full lines with big sizes
    loop = asyncio.new_event_loop()
    try:
        c = aioftp.Client(path_io_factory=aioftp.MemoryPathIO)
        srv = aioftp.Server(path_io_factory=aioftp.MemoryPathIO)
        for size in [0, 1, 9, 10, 4096, 2 ** 31 - 1, 2 ** 31, 2 ** 32 + 5, 2 ** 40, 10 ** 12 + 7] + [rng.randrange(2 ** 40) for _ in range(30)]:
            for typ in ("file", "dir"):
                mode = (statmod.S_IFREG | 0o644) if typ == "file" else (statmod.S_IFDIR | 0o755)
                mt = case["nows"][0] - rng.randrange(0, 300 * 86400)
                if abs(case["nows"][0] - mt - H) < 86400:
                    continue
                facts = srv._build_mlsx_facts_from_stats(aioftp.MemoryPathIO.Stats(size, mt, mt, 1, mode))
                line = "".join(f"{k}={v};" for k, v in facts.items()) + f"Type={typ}; name x"
                p, info = c.parse_mlsx_line(line.encode())
                n += 1
                if str(p) != "name x" or info.get("size") != str(size) or info.get("type") != typ or \
                        info.get("modify") != time.strftime("%Y%m%d%H%M%S", time.gmtime(mt)):
                    viol.append({"key": "mlsx-line-wrong", "msg": f"{line!r} parsed as {p} {info}"})
                fields = (statmod.filemode(mode), "1", "none", "none", str(size), aioftp.Server.build_list_mtime(mt, case["nows"][0]), "name x")
                lline = " ".join(fields)
                orig_now = aioftp.client.datetime
                try:
                    p, info = _parse_list_with_now(c, lline, case["nows"][0])
                except Exception as e:
                    viol.append({"key": "list-line-raises", "msg": f"{lline!r}: {e!r}"})
                    continue
                n += 1
                if str(p) != "name x" or info.get("size") != str(size) or info.get("type") != typ or \
                        info.get("modify") != expected_ls(mt, case["nows"][0]):
                    viol.append({"key": "list-line-wrong", "msg": f"{lline!r} parsed as {p} {info}; expected modify {expected_ls(mt, case['nows'][0])}"})
    finally:
        loop.close()
    return {"violations": viol[:6], "monitors": {"date_roundtrip": n, "skipped_boundary_window": skipped},
            "sigs": [sig_of([case["tz"], now, "grid"]) for now in case["nows"]] + [sig_of([case["tz"], case["seed"], i]) for i in range(min(near, 50))],
            "stats": {"points_near_boundaries": near},
            "sample": {"tz": case["tz"], "nows": case["nows"][:3], "points_evaluated": n, "near_boundaries": near,
                       "example": [build(case["nows"][0] - 86400 * 10, case["nows"][0]), build(case["nows"][0] - 86400 * 400, case["nows"][0])]}}


class _Clock:
    """shim for aioftp.server.time / aioftp.client.datetime"""
    now = None


class _TimeShim:
    def __getattr__(self, name):
        return getattr(time, name)

    def time(self):
        return _Clock.now if _Clock.now is not None else time.time()


class _DT(datetime.datetime):
    @classmethod
    def now(cls, tz=None):
        if _Clock.now is None:
            return super().now(tz)
        return cls.fromtimestamp(_Clock.now, tz)


class _DatetimeShim:
    datetime = _DT

    def __getattr__(self, name):
        return getattr(datetime, name)


def install_shims():
    aioftp.server.time = _TimeShim()
    aioftp.client.datetime = _DatetimeShim()
    # canary
    _Clock.now = 946684800 + 12345
    ok = False
    try:
        a = aioftp.Server.build_list_mtime(_Clock.now - 3600)
        b = aioftp.Client.parse_ls_date(a)
        ok = b == expected_ls(_Clock.now - 3600, _Clock.now) and a == time.strftime("%b %e %H:%M", time.localtime(_Clock.now - 3600))
    except Exception:
        ok = False
    _Clock.now = None
    return ok


def _parse_list_with_now(c, line, now):
    install_shims()
    _Clock.now = now
    try:
        return c.parse_list_line(line.encode())
    finally:
        _Clock.now = None


class FakeStat(aioftp.MemoryPathIO):
    table = {}

    @aioftp.pathio.universal_exception
    async def stat(self, path):
        st = await aioftp.MemoryPathIO.stat(self, path)
        ent = self.table.get(path.name)
        if ent is None:
            return st
        typ, size, mtime = ent
        return aioftp.MemoryPathIO.Stats(size, mtime, mtime, 1, st.st_mode)


async def e2e(net, hyg, plan):
    rng = random.Random(plan["seed"])
    shim_ok = install_shims()
    now = plan["now"] if shim_ok else int(time.time())
    _Clock.now = now if shim_ok else None
    viol = []
    mon = {"mlsx_entries": 0, "list_entries": 0, "stat_entries": 0, "shim_effective": int(shim_ok)}
    try:
        n = plan["n"]
        entries = {}
        names = []
        for i in range(n):
            name = rng.choice(["f", "data", "x y", "a.b", "UP", "deep", "notes; final", "a;b", "k=v; ", "size=1;type=dir; ", " lead", "a -> b",
                               "Jan 01  2020 ", "12:34 ", "<DIR> ", "1,024 ", "café ", "naïve ü", "ÿ¡"]) + str(i)
            typ = rng.choice(["file", "file", "dir"])
            size = rng.choice([0, 1, 511, 4096, 2 ** 31, 2 ** 40, rng.randrange(10 ** 9)]) if typ == "file" else 0
            off = rng.choice([0, 59, 3600, 86400 * 3, H - 86400 * 2, H + 86400 * 2, 86400 * 400, 86400 * 3000, -3600, -86400 * 30,
                              rng.randrange(0, 86400 * 1000)])
            mtime = now - off
            if abs(now - mtime - H) < 86400 + 5:
                mtime -= 3 * 86400
            entries[name] = (typ, size, mtime)
            names.append(name)
        table = dict(entries)
        FakeStat.table = table

        srv_kwargs = {}
        w = W.World(net)
        # replace the factory by the stat-overriding back end
        enc = plan.get("encoding")      # both sides configured with the same non-default encoding
        if enc:
            srv_kwargs["encoding"] = enc
        w.server = aioftp.Server([aioftp.User(base_path="/")], path_io_factory=FakeStat, **srv_kwargs)
        fb = plan["fallback"]
        if fb in (True, "both", "no_mlsd"):
            del w.server.commands_mapping["mlsd"]
        if fb in (True, "both", "no_mlst"):
            del w.server.commands_mapping["mlst"]
        D = plan.get("dirname", "dir")
        await w.server.start("127.0.0.1", 2121)
        c = aioftp.Client(path_io_factory=aioftp.MemoryPathIO, **({"encoding": enc} if enc else {}))
        if plan.get("first_life"):
            # the same Client object had another session before, with a server that knows LIST only (or refused it before login)
            srv0 = aioftp.Server([aioftp.User(base_path="/")], path_io_factory=aioftp.MemoryPathIO, **srv_kwargs)
            if plan["first_life"] == "list_only":
                del srv0.commands_mapping["mlsd"]
                del srv0.commands_mapping["mlst"]
            await srv0.start("127.0.0.1", 2122)
            await c.connect("127.0.0.1", 2122)
            try:
                if plan["first_life"] == "list_only":
                    await c.login()
                await c.list("/")
                await c.stat("/")
            except (aioftp.StatusCodeError, ValueError):
                pass
            try:
                await c.quit()
            except Exception:
                c.close()
            await srv0.close()
            mon["client_second_life"] = 1
        await c.connect("127.0.0.1", 2121)
        await c.login()
        if n > 16:
            # large directories are put into the back end directly
            from ..spyfs import DIR as _DIR, memory_populate
            nursery = w.server.path_io_factory
            if nursery.state is None:
                nursery(timeout=None, connection=None)
            spec = {"/" + D: _DIR}
            spec.update({"/" + D + "/" + name: (_DIR if typ == "dir" else b"") for name, (typ, size, mtime) in entries.items()})
            memory_populate(nursery.state, spec)
        else:
            await c.make_directory("/" + D)
            for name, (typ, size, mtime) in entries.items():
                if typ == "dir":
                    await c.make_directory("/" + D + "/" + name)
                else:
                    async with c.upload_stream("/" + D + "/" + name) as s:
                        pass
        rel = plan.get("relative", False)
        await c.change_directory("/" if rel else rng.choice(["/", "/" + D]))
        LP = D if rel else "/" + D          # how the directory is spelled in list()/stat()

        unjudged = set()    # entries whose time stamp lies in the ambiguous window of the current 'now': present, not judged

        def judge(kind, listed, mon_key, only=None):
            want_names = sorted(only) if only is not None else sorted(entries)
            listed = [(p, info) for p, info in listed if str(p.name) not in unjudged]
            got_names = sorted(str(p.name) for p, info in listed)
            if got_names != want_names:
                only_listed = [x for x in got_names if x not in want_names][:6]
                missing = [x for x in want_names if x not in got_names][:6]
                viol.append({"key": f"{kind}-entry-set-differs", "msg": f"{kind} of {LP!r}: {len(got_names)} listed, back end has "
                                                                        f"{len(want_names)}; listed only: {only_listed}, missing: {missing}"})
                return
            for p, info in listed:
                typ, size, mtime = entries[p.name]
                mon[mon_key] += 1
                if info.get("type") != typ:
                    viol.append({"key": f"{kind}-type-wrong", "msg": f"{kind}: {p.name}: type {info.get('type')} vs {typ}"})
                if typ == "file" and str(info.get("size")) != str(size):
                    viol.append({"key": f"{kind}-size-wrong", "msg": f"{kind}: {p.name}: size {info.get('size')} vs {size}"})
                want = time.strftime("%Y%m%d%H%M%S", time.gmtime(mtime)) if kind.startswith("mls") else expected_ls(mtime, now)
                if info.get("modify") != want:
                    viol.append({"key": f"{kind}-modify-wrong",
                                 "msg": f"{kind}: {p.name}: modify {info.get('modify')} vs {want} (mtime {mtime}, now {now}, shim {shim_ok}, "
                                        f"server lacks {fb or 'nothing'}, order {plan.get('order')})"})

        async def do_list():
            if fb in (True, "both", "no_mlsd"):
                judge("list-fallback", await c.list(LP), "list_entries")
            else:
                judge("mlsd", await c.list(LP), "mlsx_entries")
                judge("list", await c.list(LP, raw_command="LIST"), "list_entries")

        async def do_stat():
            some = list(entries)[:4]
            st = []
            for name in some:
                info = await c.stat(LP + "/" + name)
                st.append((aioftp.client.pathlib.PurePosixPath(name), info))
            if st:
                # without MLST the client lists the parent: exact facts if MLSD exists, ls precision if it does not either
                kind = "stat-fallback" if fb in (True, "both") else ("mlsd-stat-fallback" if fb == "no_mlst" else "mlst")
                judge(kind, st, "stat_entries", only=some)
        if plan.get("order") == "stat-first":
            await do_stat()
            await do_list()
        else:
            await do_list()
            await do_stat()
        if plan.get("now2") and shim_ok:
            # the same server process lists the same entries again at another 'current time': what is formatted and parsed
            # follows that time (nothing about an earlier listing is remembered)
            if plan.get("shift_mtimes"):
                # ... and the entries were all touched again, the same time span later: the date columns read the same as
                # before and mean another year
                delta = plan["now2"] - now
                for name_ in list(entries):
                    typ_, size_, mtime_ = entries[name_]
                    entries[name_] = (typ_, size_, mtime_ + delta)
                table.update(entries)
            now = plan["now2"]
            _Clock.now = now
            for name_, (typ_, size_, mtime_) in list(entries.items()):
                if abs(now - mtime_ - H) < 86400 + 5:
                    entries.pop(name_)      # inside the ambiguous window of the second 'now': not judged
                    unjudged.add(name_)
            mon["relisted_at_another_time"] = mon.get("relisted_at_another_time", 0) + 1
            await do_list()
        mon["mlsx_entries"] += 0
        await c.quit()
        await w.stop()
        return {"violations": viol, "monitors": mon, "sig": sig_of([sorted(entries.items()), now, plan["fallback"]]),
                "nontrivial": n >= 2,
                "sample": {"now": now, "fallback": plan["fallback"], "entries": {k: list(v) for k, v in list(entries.items())[:5]}}}
    finally:
        _Clock.now = None


async def fs_listing(net, hyg, plan):
    """PathIO / AsyncPathIO on a real directory: every entry once, exact type, size and (MLSD) modification second"""
    import shutil, tempfile
    rng = random.Random(plan["seed"])
    viol = []
    mon = {"mlsx_entries": 0, "list_entries": 0, "stat_entries": 0, "fs_listings": 1}
    enc = plan.get("encoding")
    root = tempfile.mkdtemp(prefix="aioftp-verif-c07-")
    try:
        entries = {}
        os.mkdir(os.path.join(root, "dir"))
        year = 365 * 86400
        for i in range(plan["n"]):
            name = rng.choice(["f", "data", "x y", "a.b", "café ", "naïve ü", "k=v; ", " lead"]) + str(i)
            typ = rng.choice(["file", "file", "dir"])
            size = rng.choice([0, 1, 511, 4096, 70000]) if typ == "file" else 0
            mtime = int(time.time()) - rng.randrange(2 * year, 20 * year)      # long ago: ls prints the year, day precision
            fp = os.path.join(root, "dir", name)
            if typ == "dir":
                os.mkdir(fp)
            else:
                with open(fp, "wb") as f:
                    f.write(b"x" * size)
            if plan.get("modes") and i % 3 == 0:
                # permission bits of every kind, also set-uid / set-gid / sticky with and without the execute bit below them
                # (ls shows s / S, t / T); the listing says the same about names, types and sizes whatever the mode is
                os.chmod(fp, rng.choice([0o644, 0o755, 0o600, 0o4755, 0o4644, 0o2755, 0o2644, 0o1777, 0o1644, 0o6644, 0o7777, 0o444, 0o7000 | 0o444]))
            if i % 5 == 4:
                # written just now (with whatever fraction of a second the file system records): hour and minute are shown
                mtime = os.stat(fp).st_mtime
            else:
                os.utime(fp, (mtime, mtime))
            entries[name] = (typ, size, mtime)
        factory = aioftp.PathIO if plan["fs"] == "pathio" else aioftp.AsyncPathIO
        server = aioftp.Server([aioftp.User(base_path=root)], path_io_factory=factory, **({"encoding": enc} if enc else {}))
        if plan["fallback"] == "no_mlsd":
            del server.commands_mapping["mlsd"]
        await server.start("127.0.0.1", 2121)
        c = aioftp.Client(path_io_factory=aioftp.MemoryPathIO, **({"encoding": enc} if enc else {}))
        await c.connect("127.0.0.1", 2121)
        await c.login()
        now = time.time()      # (not truncated: an entry written in this very second is not in the future)

        def judge(kind, listed):
            want_names = sorted(entries)
            got_names = sorted(str(p.name) for p, info in listed)
            if got_names != want_names:
                miss = sorted(set(want_names) - set(got_names))
                extra = sorted(set(got_names) - set(want_names))
                viol.append({"key": f"{kind}-entry-set-differs:{plan['fs']}",
                             "msg": f"{kind} on {plan['fs']} (encoding {enc}): {len(want_names)} entries on disk, {len(got_names)} listed; "
                                    f"missing {miss[:4]} invented {extra[:4]}"})
                return
            for p_, info in listed:
                typ, size, mtime = entries[p_.name]
                mon["mlsx_entries" if kind == "mlsd" else "list_entries"] += 1
                if info.get("type") != typ or (typ == "file" and str(info.get("size")) != str(size)):
                    viol.append({"key": f"{kind}-type-or-size-wrong:{plan['fs']}", "msg": f"{p_.name}: {info} vs {(typ, size)}"})
                want = time.strftime("%Y%m%d%H%M%S", time.gmtime(mtime)) if kind == "mlsd" else expected_ls(mtime, now)
                if info.get("modify") != want:
                    viol.append({"key": f"{kind}-modify-wrong:{plan['fs']}", "msg": f"{p_.name}: modify {info.get('modify')} vs {want}"})
        async def listing(kind, **kw):
            try:
                judge(kind, await c.list("/dir", **kw))
            except (ValueError, aioftp.StatusCodeError) as e:
                # the listing of a directory that exists and is readable cannot be had at all
                viol.append({"key": f"{kind}-raises-{type(e).__name__}:{plan['fs']}",
                             "msg": f"{kind} on {plan['fs']} (encoding {enc}, special modes {bool(plan.get('modes'))}): {e!r}"[:400]})
        if plan["fallback"] == "no_mlsd":
            await listing("list-fallback")
        else:
            await listing("mlsd")
            if not viol:
                await listing("list", raw_command="LIST")
        if not viol:
            await c.quit()
        else:
            c.close()
        await server.close()
        return {"violations": viol[:6], "monitors": mon, "sig": sig_of(["fs", plan]), "nontrivial": plan["n"] >= 2,
                "sample": {"fs": plan["fs"], "entries": plan["n"], "encoding": enc}}
    finally:
        shutil.rmtree(root, ignore_errors=True)


def run_case(case):
    if case["kind"] == "func":
        return func_case(case)
    os.environ["TZ"] = case.get("tz", "UTC")
    time.tzset()
    out = {"violations": [], "monitors": {}, "sigs": []}
    for plan in case["plans"]:
        async def main(net, hyg, plan=plan):
            return await (fs_listing if plan.get("fs") else e2e)(net, hyg, plan)
        res, info = W.run(main, seed=plan["seed"], net_kwargs=dict(latency=0.0005))
        if res is None:
            return W.failed(info)
        for k, v in res["monitors"].items():
            out["monitors"][k] = out["monitors"].get(k, 0) + v
        if res["nontrivial"]:
            out["sigs"].append(res["sig"])
        for v in res["violations"]:
            v["replay_case"] = {"kind": "e2e", "tz": case.get("tz", "UTC"), "plans": [plan]}
            out["violations"].append(v)
        out.setdefault("sample", res["sample"])
    return out


def gen_cases(tier, seed):
    rng = random.Random(seed * 101 + 13)
    cases = []
    for tz in ("UTC", "IST-5:30", "EST5EDT"):
        os.environ["TZ"] = tz
        time.tzset()
        nows = structural_nows(rng, tier)
        per = 2 if tier == "quick" else 3
        for i in range(0, len(nows), per):
            cases.append({"kind": "func", "tz": tz, "tier": tier, "seed": seed * 100 + i, "nows": nows[i:i + per]})
    os.environ["TZ"] = "UTC"
    time.tzset()
    nd = 150 if tier == "quick" else 3000
    special = [int(time.mktime((y, mo, d, hh, 0, 0, 0, 0, -1))) for (y, mo, d, hh) in
               [(2024, 1, 1, 0), (2024, 2, 29, 12), (2024, 3, 1, 0), (2025, 1, 2, 3), (2025, 3, 1, 1), (2023, 12, 31, 23), (2026, 7, 2, 0), (2030, 6, 15, 12)]]
    plans = []
    for i, fl in enumerate(["list_only", "before_login", "list_only", "before_login"]):
        plans.append({"seed": seed * 7 + 900 + i, "n": [5, 12, 33, 3][i], "fallback": False, "order": ["list-first", "stat-first"][i % 2],
                      "dirname": "dir", "relative": bool(i % 2), "now": special[i % len(special)], "encoding": None, "first_life": fl})
    for i in range(nd):
        plans.append({"seed": seed * 7 + i, "n": rng.choice([0, 1, 2, 3, 5, 8, 12, 31, 32, 33, 34, 65, 100, 257]),
                      "fallback": [False, "both", "no_mlsd", "no_mlst", False, "both"][i % 6], "order": ["list-first", "stat-first"][(i // 6) % 2],
                      "dirname": rng.choice(["dir", "dir", "-tmp", "-la", "d ir", "-R"]), "relative": rng.random() < 0.5,
                      "now": rng.choice(special) if i % 2 else rng.randrange(946684800, 2208988800),
                      "encoding": [None, None, "latin-1"][i % 3]})
        if i % 2 == 0 and plans[-1]["n"] <= 34:
            plans[-1]["now2"] = plans[-1]["now"] + rng.choice([60, 86400 * 30, 86400 * 200, 86400 * 400, -86400 * 200])
            if i % 4 == 0:
                plans[-1]["now2"] = plans[-1]["now"] + 86400 * rng.choice([365, 366, 730])
                plans[-1]["shift_mtimes"] = True
    # the file-system back ends on a real directory (entries with real sizes and mtimes set by utime)
    for i in range(12 if tier == "quick" else 1200):
        plans.append({"fs": ["pathio", "async"][i % 2], "seed": seed * 11 + i, "n": rng.choice([0, 1, 5, 31, 32, 33, 34, 64, 65, 66, 100, 130]),
                      "encoding": [None, "latin-1"][(i // 2) % 2], "fallback": [False, "no_mlsd"][(i // 4) % 2], "modes": (i // 8) % 2 == 1})
    per = 10
    for j, i in enumerate(range(0, len(plans), per)):
        cases.append({"kind": "e2e", "tz": ["UTC", "IST-5:30", "EST5EDT"][j % 3], "plans": plans[i:i + per]})
    return cases
