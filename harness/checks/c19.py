"""C19 - malformed input from the peer is contained on both sides."""

import asyncio
import pathlib
import random
import signal
import time

from .. import boot  # noqa: F401
from .. import world as W
from ..corpus import Session, corpus, corpus_tree, corpus_users
from ..rawpeer import RawPeer, ProtocolGarbage
from ..runner import sig_of
import aioftp

PROPERTY = "C19"
LEVEL = "exploration"
RULE = ("server side: a hostile raw peer sends grammar-aware mutations of valid command lines (byte flips, NUL / 0xFF / Telnet IAC / "
        "invalid UTF-8, bare CR or LF, truncation, duplication, arguments beyond the 64 KiB stream limit, missing line end "
        "before EOF, thousands of tiny lines) next to a benign bystander session: the bystander's transcript equals its solo "
        "run, a new session is still admitted afterwards, the hostile session's resources are released (ledger) and nothing "
        "reaches the loop's exception handler.  client side: (i) parse_list_line / parse_mlsx_line / parse_ls_date / "
        "parse_unix_mode / parse_pasv_response / parse_epsv_response / parse_directory_response on mutated valid unix, windows "
        "and MLSx lines and reply payloads: parse_list_line returns (PurePosixPath, dict) or raises ValueError, the others raise "
        "only ordinary exceptions, each call finishes within a time budget; (ii) aioftp.Client methods (connect, login, "
        "get_current_directory, list, recursive list, stat, download) against a scripted hostile server that mutates one reply "
        "or the listing lines and then closes: the call returns well-typed values or raises an ordinary exception within the "
        "virtual-time budget; '.' and '..' are never yielded; a listing that returns normally yields one entry per non-dot "
        "line sent: every line that went over the wire is given to the client's own line parser, a rejected line (mutated lines, "
        "'total 12', tool error messages) must surface as an exception of list(), a normal return has exactly one entry per parsed "
        "non-dot line; a conformant scripted server with a 4-directory tree that lists the directory itself and its parent as "
        "'.'/'..' or by full path (RFC 3659 7.7.4): list/recursive list return exactly the tree with one listing command per "
        "directory.  After the hostile session a fresh session must be able to MLSD and LIST the root (what the hostile session "
        "left in the tree breaks nobody).  distinct = distinct mutated inputs; non-trivial = the input differs from every valid seed line.")
RULE += ("  " + 'Also (round 6): the parser calls of one case run in a child process under RLIMIT_CPU (30 CPU seconds; a normal case needs < 1): a call that never returns is a violation naming the function and its input, not a time-out of the harness.  Blank and white-space-only lines right before the end of the stream.')
RULE += ("  " + 'Also (round 7): hostile bytes that are already there when the server accepts the connection; MLSx seed lines without a type fact; when only the listing lines are out of the ordinary, list() raises ValueError and nothing else.')
RULE += ("  " + 'Also (round 8): streams ending inside a multi-byte character, then other sessions; paths of tens of thousands of components; the CPU time of one loop iteration of the server stays below 3 s (thread CPU time).')
RULE += ("  " + 'Also (round 10): a listing line that is no entry together with a transfer that ends 426 / 451 / 550 or whose completion reply never comes: the documented ValueError; a passive-mode answer naming a port where connects are never answered, client with connection_timeout: the call ends by that time-out (simnet blackhole_ports).')
ASSUMPTIONS = ["the hostile peer's script is finite and ends with EOF (a peer that stays silent for ever is C16's subject)",
               "time budget per parser call 5 s (a 64 KiB PASV payload needs ~2 s because of a quadratic regular expression; "
               "bounded by the stream limit, so not a hang)"]
REQUIRED_MONITORS = ["hostile_lines", "bystander_vs_solo", "parser_calls", "client_calls", "listing_after_hostile",
                     "listing_lines_accounted", "tree_listings", "limits_after_hostile"]
ANCHOR_FUNCTIONS = ['server.py:Server.parse_command', 'client.py:BaseClient.parse_list_line', 'client.py:Client.list.<locals>.AsyncLister.__anext__']
EXHAUSTIVE = {"quick": False, "thorough": False}

VALID_CMDS = [b"USER anonymous", b"PASS x", b"USER alice", b"PASS secret", b"PASS wrong", b"USER bob", b"PASS", b"USER alice", b"PASS \xff", b"PWD", b"CWD /dir", b"CDUP", b"MKD /new", b"RMD /new", b"DELE /f.bin", b"RNFR /f.bin",
              b"RNTO /g.bin", b"MLST /f.bin", b"TYPE I", b"PASV", b"EPSV", b"REST 5", b"RETR /f.bin", b"STOR /up", b"APPE /up",
              b"LIST /", b"MLSD /", b"ABOR", b"SYST", b"PBSZ 0", b"PROT P", b"NOOP", b"QUIT"]
UNIX = [b"-rw-rw-r--  1 poh  poh   6595 Feb 27 04:14 history.rst", b"drwxr-xr-x  2 none none 0 Jan  3  2016 changes dir",
        b"lrwxrwxrwx  1 poh  poh      6 Mar 23 05:46 link-tmp.py -> tmp.py", b"-rw-r--r-- 1 none none 1099511627776 Feb 29 12:00 big",
        b"drwxrwxrwt 12 root root 4096 Dec 31 23:59 .", b"-rwSr-sr-T 1 a b 0 Jan 01 00:00 x"]
WIN = [b"10/19/2018  03:57 PM    <DIR>          Foo", b"07/17/2019  03:53 PM             1,024 bar.txt", b"01/01/1980  12:00 AM  0 a"]
MLSX = [b"Type=file;Size=25730;Modify=20220101000000; foo.txt", b"type=dir;modify=20010101120000;create=19990101000000; some dir",
        b"Size=0;Type=file; ", b"Type=cdir;Modify=20230101000000; .", b"size=1; typeless", b"Modify=20200101000000;Perm=r; only some facts"]
NOT_ENTRIES = [b"total 12", b"total 2 -rw------- 1 root root 4096 Jan 01  2020 shadow", b"total 0x10", b"total 1337 bytes of garbage",
               b"-rw-r--r--", b"ls: cannot access 'x': No such file or directory", b"226 Transfer complete", b"# comment",
               b"drwxr-xr-x", b"<html>", b"0 files", b"Volume in drive C has no label.",
               b"lrwxrwxrwx   1 ftp ftp 7 Jan 01  2020 current", b"lrwxrwxrwx 1 a a 3 Feb 29 12:00 x->y",
               b"-rw-r--r-- 1 a a twelve Jan 01  2020 f", b"07/17/2019  03:53 PM", b"13/45/2019  03:53 PM  12 when", b"crw-rw---- 1 root tty 4, 64 Jan 01  2020 ttyS0",
               b"=; x", b";;; y", b"type=file;size=1;modify=20200101000000;noname"]
REPLIES = ["227 listen socket created (127,0,0,1,156,64)", "229 listen socket created (|||40000|)", '257 "/some/dir" is current',
           "227 Entering Passive Mode (10,0,0,1,4,1).", "229 Extended Passive Mode OK (|||1|)"]
STALL_CPU_S = 3.0
MUT_BYTES = [b"\0", b"\xff", b"\xff\xf4\xff\xf2", b"\x80", b"\xc3", b"\xe2\x82", b"\r", b"\n", b"\r\n", b" ", b"  ", b"\t", b"-", b"=", b";", b":", b"0",
             b"9" * 30, "٣".encode(), "²".encode(), b"%s", b"\\", b"/", b"..", b"(", b")", b"|", b",", b'"', b"M", b" -> "]


def mutate(rng, b, maxlen=200):
    b = bytearray(b)
    for _ in range(rng.randint(1, 4)):
        op = rng.randrange(8)
        pos = rng.randrange(len(b) + 1)
        if op == 0 and b:
            del b[pos % len(b)]
        elif op == 1:
            b[pos:pos] = rng.choice(MUT_BYTES)
        elif op == 2 and b:
            b[pos % len(b)] = rng.randrange(256)
        elif op == 3:
            b = b[:pos]
        elif op == 4 and b:
            i, j = sorted((rng.randrange(len(b)), rng.randrange(len(b))))
            b[i:j] = b[i:j] * 2
        elif op == 5:
            toks = bytes(b).split(b" ")
            rng.shuffle(toks)
            b = bytearray(b" ".join(toks))
        elif op == 6 and b:
            i, j = sorted((rng.randrange(len(b)), rng.randrange(len(b))))
            del b[i:j]
        else:
            b[pos:pos] = rng.choice(MUT_BYTES) * rng.choice([1, 3, 50])
    return bytes(b[:maxlen])


# ----------------------------------------------------------------------------- server side

async def server_side(net, hyg, plan):
    rng = random.Random(plan["seed"])
    viol = []
    mon = {"hostile_lines": 0, "bystander_vs_solo": 0}
    def users(base):
        # alice may be connected twice, bob once: what a hostile session leaves of these limits shows afterwards
        return [aioftp.User(base_path=base), aioftp.User("alice", "secret", base_path=base, maximum_connections=2),
                aioftp.User("bob", "pw", base_path=base, maximum_connections=1)]
    w = W.World(net, tree=corpus_tree(["", "/by"]), users=users, maximum_connections=6,
                **({"wait_future_timeout": None} if plan.get("wft_none") else {}))
    await w.start()
    try:
        by = Session(net, 2121, name="bystander")
        by_task = None
        if plan["bystander"]:
            by_task = asyncio.ensure_future(by.run(corpus("/by")[plan["bystander"]]))
        sent = []
        if plan["hostile"]:
            p = RawPeer(net, 2121, name="hostile")
            try:
                if plan["seed"] % 4 == 3:
                    # the first hostile bytes are already there when the server accepts the connection
                    early = rng.choice([mutate(rng, rng.choice(VALID_CMDS)) + b"\r\n", b"\r\n", b"\xff\xfe\r\n", b"USER anonymous\r\nPASV\r\nLIST\r\n",
                                        b"A" * 70000, b"QUIT\r\n" * 3])
                    sent.append(early[:60])
                    mon["hostile_lines"] += 1
                    net.next_conn_early_data = early
                await p.connect()
                r0 = rng.random()
                if plan.get("deep"):
                    r0 = 0.0
                if r0 < 0.5:
                    await p.cmd("USER anonymous")
                elif r0 < 0.8:
                    # a limited account, then a garbage / wrong / missing password
                    await p.cmd("USER " + rng.choice(["alice", "bob"]))
                    p.writer.write(b"PASS " + rng.choice([b"wrong", b"\xff\xfe", b"", b"secret ", b"x" * 300, mutate(rng, b"secret")]) + b"\r\n")
                    try:
                        await asyncio.wait_for(p.reader.read(65536), 0.05)
                    except asyncio.TimeoutError:
                        pass
                for i in range(plan["lines"]):
                    r = rng.random()
                    if plan.get("deep"):
                        r = 0.04
                    if r < 0.03:
                        # undecodable bytes inside the path argument of a creating command
                        line = rng.choice([b"MKD /", b"STOR /", b"APPE /", b"RNTO /", b"MKD /dir/"]) + rng.choice(
                            [b"bad\xff\xfe", b"\x80", b"caf\xe9", b"\xc3", b"a\xed\xa0\x80b", b"\xf8\x88\x80\x80\x80"])
                        if line.startswith(b"RNTO"):
                            p.writer.write(b"RNFR /dir/g.txt\r\n")
                    elif r < 0.045:
                        # a path of tens of thousands of components in one line below the stream limit
                        unit = rng.choice([b"a/", b"../", b"./", b"a/../", b"//", b"a/b/../"] if not plan.get("deep") else [b"a/", b"bc/", b"a/b/../"])
                        line = rng.choice([b"CWD ", b"MKD ", b"RMD ", b"DELE ", b"RNFR ", b"MLST ", b"LIST ", b"MLSD ", b"RETR ", b"STOR ", b"SIZE "]) + \
                            unit * (rng.choice([20000, 40000, 64000]) // len(unit))
                    elif r < 0.06:
                        line = rng.choice(VALID_CMDS).split(b" ")[0] + b" " + b"A" * rng.choice([70000, 140000])
                    elif r < 0.1:
                        line = b"\r\n".join([b"NOOP"] * 400)
                    else:
                        line = mutate(rng, rng.choice(VALID_CMDS))
                    end = rng.choice([b"\r\n", b"\r\n", b"\r\n", b"\n", b"\r", b""]) if not plan.get("deep") else b"\r\n"
                    data = line + end
                    sent.append(data[:60])
                    mon["hostile_lines"] += 1
                    try:
                        p.writer.write(data)
                        rep = await asyncio.wait_for(p.reader.read(65536), 0.05 if end else 0.01)
                    except asyncio.TimeoutError:
                        rep = None
                    except (ConnectionError, ValueError):
                        break
                    if rep == b"":
                        break
                if rng.random() < 0.35:
                    # a transfer that will never get its data connection, then premature end of stream
                    p.writer.write(b"USER anonymous\r\n" + rng.choice([b"EPSV", b"PASV"]) + b"\r\n" +
                                   rng.choice([b"LIST /", b"RETR /f.bin", b"STOR /never", b"MLSD /"]) + b"\r\n")
                    try:
                        await asyncio.wait_for(p.reader.read(65536), 0.05)
                    except asyncio.TimeoutError:
                        pass
                r1 = rng.random()
                if plan.get("tail") is not None:
                    tail = bytes.fromhex(plan["tail"])
                    sent.append(tail)
                    mon["hostile_lines"] += 1
                    p.writer.write(tail)
                    await asyncio.sleep(0.01)
                    p.cut("fin")
                    r1 = 2.0
                if r1 < 0.35:
                    p.writer.write(mutate(rng, rng.choice(VALID_CMDS)))  # no line end before EOF
                elif r1 < 0.65:
                    # blank / white-space-only lines (keep-alives of some clients) right before the end of the stream
                    tail = rng.choice([b"\r\n", b"\n", b" \r\n", b"\r\n\r\n", b"\t\n", b"   ", b"\r", b"\r\n \r\n\n"])
                    sent.append(tail)
                    mon["hostile_lines"] += 1
                    p.writer.write(tail)
                elif r1 < 0.85:
                    # the stream ends inside a line and inside a multi-byte character
                    tail = rng.choice([b"MKD caf\xe2\x82", b"USER \xf0\x9f", b"\xc3", b"CWD /dir/\xe3\x81", b"PASS \xf0\x9f\x98"])
                    sent.append(tail)
                    mon["hostile_lines"] += 1
                    p.writer.write(tail)
                p.cut(rng.choice(["fin", "rst"]))
            except (ConnectionError, ProtocolGarbage, OSError):
                p.cut("rst")
        if by_task is not None:
            await asyncio.wait([by_task], timeout=300)
            if not by_task.done():
                viol.append({"key": "bystander-stuck", "msg": f"bystander {plan['bystander']} did not finish next to hostile input {sent[:5]}"})
                by_task.cancel()
        await net.quiesce(2.0)
        # a new session is still admitted and served
        s = Session(net, 2121, name="after")
        await s.run([["connect"], ["login"], ["cmd", "PWD"], ["quit"]])
        if s.flat_codes()[:4] != ["220", "230", "257", "221"]:
            viol.append({"key": "server-unusable-after-hostile-input", "msg": f"new session got {s.flat_codes()} after hostile lines {sent[:5]}"})
        # ... the limits of the accounts it touched are all there again
        held = []
        got = []
        for who, pw in (("alice", "secret"), ("alice", "secret"), ("bob", "pw")):
            sx = Session(net, 2121, name="after-" + who)
            await sx.run([["connect"], ["login", who, pw]])
            got.append(sx.flat_codes())
            held.append(sx)
        mon["limits_after_hostile"] = 1
        if got != [["220", "331", "230"]] * 3:
            viol.append({"key": "connection-slot-lost-after-hostile-input",
                         "msg": f"after the hostile session ended, two logins of alice (limit 2) and one of bob (limit 1) got {got}; "
                                f"hostile lines {sent[:8]}"})
        for sx in held:
            await sx.run([["quit"]])
        # ... and whatever the hostile session left in the tree does not break a later session that lists it
        s2 = Session(net, 2121, name="after-listing")
        await s2.run([["connect"], ["login"], ["epsv"], ["xfer", "MLSD", "/"], ["pasv"], ["xfer", "LIST", "/"], ["cmd", "PWD"], ["quit"]])
        mon["listing_after_hostile"] = 1
        want = ["220", "230", "229", "150", "200", "eof", "227", "150", "226", "eof", "257", "221"]
        if s2.flat_codes()[:len(want)] != want:
            viol.append({"key": "listing-broken-after-hostile-input",
                         "msg": f"a later session listing / got {s2.flat_codes()} after hostile lines {sent[:5]}"})
        await net.quiesce(1.0)
        for leak in w.leaks():
            viol.append({"key": "hostile-session-not-released", "msg": f"{leak}; hostile lines {sent[:5]}"})
        for e in hyg.serious_loop_errors():
            viol.append({"key": "exception-reached-loop", "msg": f"{e}; hostile lines {sent[:5]}"})
        # nothing the peer sends keeps the server's only thread to itself: CPU seconds (of this thread, so load on the machine
        # does not count) that the callbacks of one loop iteration took, the worst over the whole case
        mon["stall_cpu_checked"] = 1
        if net.loop.worst_iteration_cpu > STALL_CPU_S:
            viol.append({"key": "server-stalled-by-one-line",
                         "msg": f"one iteration of the server's event loop took {net.loop.worst_iteration_cpu:.1f} CPU seconds (every session "
                                f"waits meanwhile); hostile lines {[x[:24] for x in sent[:8]]}"})
        await w.stop()
        return {"violations": viol, "monitors": mon, "by": by.peer.normalized() if plan["bystander"] else None,
                "sent": [x.hex() for x in sent[:8]]}
    finally:
        w.cleanup()


def run_server_side(plan):
    out = {"violations": [], "monitors": {}, "sigs": []}
    solo = None
    if plan["bystander"]:
        async def main0(net, hyg):
            return await server_side(net, hyg, dict(plan, hostile=False))
        res0, info0 = W.run(main0, seed=plan["seed"], net_kwargs=dict(latency=0.001))
        if res0 is None:
            return W.failed(info0)
        solo = res0["by"]

    async def main(net, hyg):
        return await server_side(net, hyg, dict(plan, hostile=True))
    res, info = W.run(main, seed=plan["seed"], net_kwargs=dict(latency=0.001))
    if res is None:
        return W.failed(info, f"plan={plan}")
    out["violations"] = res["violations"]
    out["monitors"] = res["monitors"]
    if solo is not None:
        out["monitors"]["bystander_vs_solo"] = 1
        if res["by"] != solo:
            j = next((k for k, (x, y) in enumerate(zip(res["by"], solo)) if x != y), min(len(res["by"]), len(solo)))
            out["violations"].append({"key": f"bystander-disturbed:{plan['bystander']}",
                                      "msg": f"bystander transcript differs at entry {j}: {res['by'][j:j + 2]} vs solo {solo[j:j + 2]}; hostile {res['sent'][:4]}"})
    out["sigs"] = [sig_of(x) for x in res["sent"]]
    out["sample"] = {"hostile_lines_hex": res["sent"][:4], "bystander": plan["bystander"]}
    return out


# ----------------------------------------------------------------------------- parsers

PARSER_CPU_LIMIT_S = 30


def run_parsers(plan):
    """the parser calls run in a child process with a CPU-time limit (RLIMIT_CPU): a regular expression that never returns
    cannot be interrupted from Python (the GIL is held inside the C matcher), so the verdict comes from the kernel's CPU
    accounting - CPU seconds of this one process, not wall-clock time on a loaded machine.  A normal case uses < 1 CPU second."""
    import json, mmap, os, resource, subprocess, sys, tempfile
    from .. import boot
    with tempfile.NamedTemporaryFile(prefix="c19-parsers-") as f:
        f.write(b"\0" * 4096)
        f.flush()

        def limit():
            resource.setrlimit(resource.RLIMIT_CPU, (PARSER_CPU_LIMIT_S, PARSER_CPU_LIMIT_S + 5))
        code = ("import sys, json; from harness.checks import c19; "
                "plan = json.loads(sys.stdin.read()); print(json.dumps(c19._run_parsers_inner(plan['plan'], plan['progress'])))")
        env = dict(os.environ, PYTHONPATH=boot.VERIF_ROOT)
        try:
            p = subprocess.run([sys.executable, "-c", code], input=json.dumps({"plan": plan, "progress": f.name}),
                               capture_output=True, text=True, preexec_fn=limit, timeout=1500, env=env, cwd=boot.VERIF_ROOT)
        except subprocess.TimeoutExpired:
            return {"violations": [], "monitors": {}, "sigs": [], "inconclusive": "parser child exceeded the wall-clock watchdog"}
        if p.returncode == 0:
            return json.loads(p.stdout.strip().splitlines()[-1])
        with open(f.name, "rb") as g:
            where = g.read(4096).rstrip(b"\0").decode("utf-8", "replace")
        if p.returncode in (-signal.SIGXCPU, -signal.SIGKILL):
            fn = where.split(" ", 1)[0]
            return {"violations": [{"key": f"parser-hangs:{fn}",
                                    "msg": f"more than {PARSER_CPU_LIMIT_S} CPU seconds without returning in {where[:300]}"}],
                    "monitors": {"parser_calls": 1}, "sigs": [], "sample": {"parser_inputs": plan["n"]}}
        return {"violations": [{"key": "parser-child-died", "msg": f"rc={p.returncode} at {where[:200]}: {p.stderr[-400:]}"}],
                "monitors": {"parser_calls": 1}, "sigs": []}


def _run_parsers_inner(plan, progress=None):
    import mmap
    mm = None
    if progress:
        _f = open(progress, "r+b")
        mm = mmap.mmap(_f.fileno(), 4096)

    def at(fn, arg):
        if mm is not None:
            b = (getattr(fn, "__name__", str(fn)) + " " + repr(arg)[:1500]).encode("utf-8", "replace")[:4000]
            mm[:len(b) + 1] = b + b"\0"
    rng = random.Random(plan["seed"])
    c = aioftp.Client(path_io_factory=aioftp.MemoryPathIO)
    viol = []
    n = 0
    sigs = []
    seeds = set(UNIX + WIN + MLSX)
    BUDGET = 5.0
    for i in range(plan["n"]):
        kind = rng.choice(["unix", "win", "mlsx", "any"])
        base = rng.choice({"unix": UNIX, "win": WIN, "mlsx": MLSX, "any": UNIX + WIN + MLSX}[kind])
        line = mutate(rng, base) if rng.random() < 0.95 else base
        if line not in seeds and len(sigs) < 400:
            sigs.append(sig_of(line.hex()))
        t0 = time.time()
        at(c.parse_list_line, line)
        try:
            r = c.parse_list_line(line)
            n += 1
            ok = isinstance(r, tuple) and len(r) == 2 and isinstance(r[0], pathlib.PurePosixPath) and isinstance(r[1], dict) \
                and all(isinstance(k, str) for k in r[1])
            if not ok:
                viol.append({"key": "parse_list_line-ill-typed", "msg": f"{line!r} -> {r!r}"})
        except ValueError:
            n += 1
        except Exception as e:
            n += 1
            viol.append({"key": f"parse_list_line-raises-{type(e).__name__}", "msg": f"{line!r}: {e!r}"})
        if time.time() - t0 > BUDGET:
            viol.append({"key": "parser-too-slow:parse_list_line", "msg": f"{line!r}: {time.time() - t0:.1f}s"})
        for fn, arg in ((c.parse_mlsx_line, line), (c.parse_list_line_unix, line), (c.parse_list_line_windows, line)):
            t0 = time.time()
            at(fn, arg)
            try:
                r = fn(arg)
                n += 1
                if not (isinstance(r, tuple) and isinstance(r[0], pathlib.PurePosixPath) and isinstance(r[1], dict)):
                    viol.append({"key": f"{fn.__name__}-ill-typed", "msg": f"{line!r} -> {r!r}"})
            except Exception:
                n += 1
            except BaseException as e:
                viol.append({"key": f"{fn.__name__}-raises-{type(e).__name__}", "msg": f"{line!r}: {e!r}"})
            if time.time() - t0 > BUDGET:
                viol.append({"key": f"parser-too-slow:{fn.__name__}", "msg": f"{line!r}"})
        text = mutate(rng, rng.choice(REPLIES).encode(), maxlen=70000 if rng.random() < 0.01 else 300).decode("utf-8", "replace")
        datetext = mutate(rng, rng.choice([b"Feb 29 12:00", b"Jan  3  2016", b"Dec 31 23:59", b"Nov 18 1958"])).decode("utf-8", "replace")
        for fn, arg in ((aioftp.Client.parse_pasv_response, text), (aioftp.Client.parse_epsv_response, text),
                        (aioftp.Client.parse_directory_response, text), (aioftp.Client.parse_ls_date, datetext),
                        (aioftp.Client.parse_unix_mode, line[:12].decode("latin-1"))):
            t0 = time.time()
            at(fn, arg)
            try:
                r = fn(arg)
                n += 1
                if fn.__name__ == "parse_directory_response" and not isinstance(r, pathlib.PurePosixPath):
                    viol.append({"key": "parse_directory_response-ill-typed", "msg": f"{arg!r} -> {r!r}"})
                if fn.__name__ in ("parse_pasv_response", "parse_epsv_response") and not (isinstance(r, tuple) and isinstance(r[1], int)):
                    viol.append({"key": f"{fn.__name__}-ill-typed", "msg": f"{arg!r} -> {r!r}"})
            except Exception:
                n += 1
            except BaseException as e:
                viol.append({"key": f"{fn.__name__}-raises-{type(e).__name__}", "msg": f"{arg!r}: {e!r}"})
            if time.time() - t0 > BUDGET:
                viol.append({"key": f"parser-too-slow:{fn.__name__}", "msg": f"{arg[:60]!r}... ({len(arg)} chars): {time.time() - t0:.1f}s"})
    return {"violations": viol[:6], "monitors": {"parser_calls": n}, "sigs": sigs, "sample": {"parser_inputs": plan["n"]}}


# ----------------------------------------------------------------------------- hostile server vs aioftp client

class HostileServer:
    """minimal scripted FTP server; one reply (or the listing lines) is mutated, then it serves `budget` more commands and closes"""

    def __init__(self, net, plan, rng):
        self.net, self.plan, self.rng = net, plan, rng
        self.data_port = 45000
        self.listing_sent = []
        self.cmds = []
        self.data_writer = None

    async def start(self):
        self.server = await asyncio.start_server(self.handle, "127.0.0.1", 2121)
        self.data_server = await asyncio.start_server(self.on_data, "127.0.0.1", self.data_port)

    async def on_data(self, reader, writer):
        self.data_writer = writer

    def reply(self, verb, default):
        if self.plan["target"] == verb and not getattr(self, "_mutated", False) and getattr(self, "plan_bytes", None) is not None:
            self._mutated = True
            return self.plan_bytes
        return default

    async def handle(self, reader, writer):
        plan = self.plan
        rng = self.rng
        try:
            base = {"greet": b"220 hello\r\n", "USER": b"230 ok\r\n", "PWD": b'257 "/x/y"\r\n', "EPSV": f"229 ok (|||{self.data_port}|)\r\n".encode(),
                    "PASV": f"227 ok (127,0,0,1,{self.data_port >> 8},{self.data_port & 255})\r\n".encode(), "TYPE": b"200 ok\r\n",
                    "MLST": b"250-start\r\n Type=file;Size=3;Modify=20200101000000; f\r\n250 end\r\n", "QUIT": b"221 bye\r\n"}
            tgt = plan["target"]
            if tgt == "blackhole":
                # a well-formed passive-mode answer that names a port where connects are never answered
                self.net.blackhole_ports.add(45999)
                base["EPSV"] = b"229 ok (|||45999|)\r\n"
                base["PASV"] = b"227 ok (127,0,0,1,179,175)\r\n"
            if tgt == "226":
                base["226"] = b"226 done\r\n"
            if tgt in base:
                m = mutate(rng, base[tgt].rstrip(b"\r\n"), maxlen=400)
                self.plan_bytes = m + rng.choice([b"\r\n", b"\r\n", b"\n", b""])
            writer.write(self.reply("greet", base["greet"]))
            served = 0
            while served < plan["budget"]:
                try:
                    line = await asyncio.wait_for(reader.readline(), 5.0)
                except asyncio.TimeoutError:
                    break   # the script is finite: nothing more to say, the connection is closed
                if not line:
                    break
                served += 1
                verb = line.split(b" ")[0].strip().upper().decode("latin-1")
                arg = line.partition(b" ")[2].strip().decode("latin-1")
                self.cmds.append(verb)
                if verb == "MLSD" and plan.get("no_mlsd"):
                    writer.write(b"502 no\r\n")
                    await writer.drain()
                    continue
                if verb in ("MLSD", "LIST", "RETR"):
                    writer.write(b"150 here it comes\r\n")
                    for _ in range(200):
                        if self.data_writer is not None:
                            break
                        await asyncio.sleep(0.001)
                    dw, self.data_writer = self.data_writer, None
                    if dw is not None:
                        if verb == "RETR":
                            dw.write(b"payload")
                        else:
                            lines = self.make_listing(verb, arg)
                            self.listing_sent.append(lines)
                            for ln in lines:
                                dw.write(ln + b"\r\n")
                        dw.close()
                    closing = plan.get("closing")
                    if closing == "silent":
                        continue        # the completion reply never comes
                    if closing:
                        writer.write(closing.encode() + b"\r\n")
                        await writer.drain()
                        continue
                    writer.write(self.reply("226", b"226 done\r\n"))
                elif verb in base:
                    writer.write(self.reply(verb, base[verb]))
                else:
                    writer.write(b"502 no\r\n")
                await writer.drain()
        except (ConnectionError, asyncio.IncompleteReadError, ValueError):
            pass
        finally:
            writer.close()

    TREE = {"/d": [("sub1", "dir"), ("sub2", "dir"), ("f", "file")], "/d/sub1": [("deep", "dir"), ("g", "file")],
            "/d/sub1/deep": [], "/d/sub2": [("h", "file")]}

    def make_listing(self, verb, arg=""):
        rng = self.rng
        if self.plan["target"] == "tree":
            # a conformant server with a small fixed tree; the directory itself and its parent are listed the way RFC 3659
            # (7.7.4) allows: as '.'/'..' or spelled with their full paths
            kids = self.TREE.get(arg.rstrip("/") or "/", [])
            out = []
            for name, typ in kids:
                if verb == "MLSD":
                    out.append(f"type={typ};modify=20200101000000;{'size=3;' if typ == 'file' else ''} {name}".encode())
                else:
                    out.append(f"{'d' if typ == 'dir' else '-'}rw-r--r-- 1 a a 3 Jan 01  2020 {name}".encode())
            style = self.plan.get("dots", "none")
            if style != "none":
                parent = str(pathlib.PurePosixPath(arg).parent)
                if verb == "MLSD":
                    cur, par = (".", "..") if style == "dot" else (arg, parent)
                    out.insert(0, f"type=cdir;modify=20200101000000; {cur}".encode())
                    out.insert(rng.randrange(len(out) + 1), f"type=pdir;modify=20200101000000; {par}".encode())
                else:
                    out.insert(0, b"drwxr-xr-x 2 a a 0 Jan 01  2020 .")
                    out.insert(1, b"drwxr-xr-x 2 a a 0 Jan 01  2020 ..")
            return out
        pool = MLSX if verb == "MLSD" else UNIX + WIN
        out = []
        for _ in range(rng.randint(0, 6)):
            ln = rng.choice(pool)
            if self.plan["target"] == "listing" and rng.random() < 0.5:
                ln = mutate(rng, ln).replace(b"\n", b"?").replace(b"\r", b"?")
            out.append(ln)
        if (self.plan["target"] == "listing" and rng.random() < 0.25) or self.plan["target"] == "not_entry":
            # lines of other tools that real servers pass through; none of them is an entry
            out.insert(rng.randrange(len(out) + 1), rng.choice(NOT_ENTRIES))
        if rng.random() < 0.5:
            out.insert(rng.randrange(len(out) + 1), b"Type=cdir; ." if verb == "MLSD" else b"drwxr-xr-x 2 a a 0 Jan 01 00:00 .")
            out.insert(rng.randrange(len(out) + 1), b"Type=pdir; .." if verb == "MLSD" else b"drwxr-xr-x 2 a a 0 Jan 01 00:00 ..")
        return out


async def client_side(net, hyg, plan):
    rng = random.Random(plan["seed"])
    viol = []
    mon = {"client_calls": 0}
    hs = HostileServer(net, plan, rng)
    await hs.start()
    c = aioftp.Client(path_io_factory=aioftp.MemoryPathIO, passive_commands=(plan["passive"],), **(plan.get("client_kwargs") or {}))
    calls = []

    loop = asyncio.get_running_loop()
    state = {"seen": None}

    class BusyLoop(BaseException):
        pass

    def on_alarm(signum, frame):
        # wall clock only triggers the look; the verdict is logical: the event loop has not completed a single
        # iteration between two alarms 10 s apart, i.e. one callback of the code under test never yields
        if state["seen"] == loop.iterations:
            raise BusyLoop()
        state["seen"] = loop.iterations
        signal.setitimer(signal.ITIMER_REAL, 10)

    async def call(name, coro):
        mon["client_calls"] += 1
        t = asyncio.ensure_future(coro)
        state["seen"] = None
        old_handler = signal.signal(signal.SIGALRM, on_alarm)
        signal.setitimer(signal.ITIMER_REAL, 10)
        try:
            done, pending = await asyncio.wait([t], timeout=120)
        except BusyLoop:
            viol.append({"key": f"client-loops-forever:{name}",
                         "msg": f"{name}: a single callback ran for > 10 s of real time without yielding to the event loop; plan {plan}; "
                                f"server saw {hs.cmds}"})
            return "hang", None
        finally:
            signal.setitimer(signal.ITIMER_REAL, 0)
            signal.signal(signal.SIGALRM, old_handler)
        if pending:
            t.cancel()
            viol.append({"key": f"client-hangs:{name}", "msg": f"{name} did not return within 120 virtual seconds; plan {plan}; server saw {hs.cmds}"})
            return "hang", None
        try:
            r = t.result()
            calls.append((name, "ok"))
            return "ok", r
        except Exception as e:
            calls.append((name, type(e).__name__))
            return "exc", e
        except BusyLoop:
            viol.append({"key": f"client-loops-forever:{name}",
                         "msg": f"{name}: a callback of the client ran for > 10 s of real time without yielding; plan {plan}; server saw {hs.cmds}"})
            return "hang", None
        except BaseException as e:
            viol.append({"key": f"client-raises-{type(e).__name__}:{name}", "msg": f"{e!r}"})
            return "exc", e
    try:
        st, _ = await call("connect", c.connect("127.0.0.1", 2121))
        if st == "ok":
            st, _ = await call("login", c.login())
        if st == "ok":
            for op in plan["ops"]:
                if op == "pwd":
                    st, r = await call("pwd", c.get_current_directory())
                    if st == "ok" and not isinstance(r, pathlib.PurePosixPath):
                        viol.append({"key": "ill-typed:pwd", "msg": repr(r)})
                elif op in ("list", "list_recursive", "list_raw"):
                    before = len(hs.listing_sent)
                    cmds_before = len(hs.cmds)
                    kw = {"recursive": True} if op == "list_recursive" else ({"raw_command": "LIST"} if op == "list_raw" else {})
                    st, r = await call(op, c.list("/d", **kw))
                    if st == "exc" and plan.get("closing") and not isinstance(r, ValueError):
                        # a line that is no entry is reported by the documented ValueError as soon as it is read, whatever the server
                        # says (or does not say) at the end of the transfer
                        viol.append({"key": f"unparsable-line-not-reported-by-ValueError:{op}",
                                     "msg": f"plan {plan}: {r!r} from list(); lines sent {hs.listing_sent[before:][:1]}"[:500]})
                    if st == "exc" and plan["target"] in ("listing", "not_entry") and isinstance(r, (LookupError, TypeError, AttributeError, ArithmeticError)):
                        # only the listing lines are out of the ordinary here (every control reply is a valid one): what they
                        # cause is "the documented ValueError", not an accident inside the lister
                        viol.append({"key": f"listing-line-raises-{type(r).__name__}:{op}",
                                     "msg": f"plan {plan}: {r!r} from list(); lines sent {hs.listing_sent[before:][:1]}"[:500]})
                    if st == "ok":
                        ok = isinstance(r, list) and all(isinstance(x, tuple) and isinstance(x[0], pathlib.PurePosixPath) and isinstance(x[1], dict) for x in r)
                        if not ok:
                            viol.append({"key": f"ill-typed:{op}", "msg": repr(r)[:300]})
                        else:
                            full = plan["target"] == "tree" and plan.get("dots") == "full"
                            # (a directory that names itself by its full path with type cdir/pdir is reported as such: no dot entry)
                            rr = [x for x in r if not (full and x[1].get("type") in ("cdir", "pdir"))]
                            names = [x[0].name for x in rr]
                            if any(str(x[0].relative_to("/d")) in (".", "..") if str(x[0]).startswith("/d") else False for x in rr) or "." in names or ".." in names:
                                viol.append({"key": f"dot-entry-yielded:{op}", "msg": repr(r)[:300]})
                            sent = [ln for lst in hs.listing_sent[before:] for ln in lst]
                            if plan["target"] == "tree":
                                want = {"/d/sub1", "/d/sub1/deep", "/d/sub1/g", "/d/sub2", "/d/sub2/h", "/d/f"} if op == "list_recursive" \
                                    else {"/d/sub1", "/d/sub2", "/d/f"}
                                got_paths = sorted(str(x[0]) for x in r if x[1].get("type") not in ("cdir", "pdir"))
                                if got_paths != sorted(want):
                                    viol.append({"key": f"wrong-listing-of-conformant-server:{op}",
                                                 "msg": f"plan {plan}: entries {got_paths}, the tree holds {sorted(want)}"})
                            if plan["target"] not in ("listing", "not_entry") and op != "list_recursive" and len(hs.listing_sent) - before == 1:
                                # unmutated seed lines: the number of entries is known exactly
                                def seed_name(ln):
                                    if ln in MLSX:
                                        return ln.rstrip().partition(b" ")[2]
                                    if ln in WIN:
                                        return ln.rsplit(b" ", 1)[-1]
                                    return ln.split(b" -> ")[0].rsplit(b" ", 1)[-1] if b" -> " in ln else ln[ln.index(b":") + 4:] if b":" in ln[35:] else ln.rsplit(b" ", 1)[-1]
                                expect = [ln for ln in sent if str(pathlib.PurePosixPath(seed_name(ln).decode())) not in (".", "..")]
                                if len(r) != len(expect):
                                    viol.append({"key": f"line-dropped-silently:{op}",
                                                 "msg": f"server sent {len(expect)} valid non-dot lines {expect[:4]}, client returned {len(r)} "
                                                        f"entries {r[:3]!r}"})
                    if st != "hang" and op != "list_recursive" and len(hs.listing_sent) - before == 1 and plan["target"] != "tree":
                        # reference: the client's own line parser applied to every line that went over the wire.  A line it
                        # rejects must surface as an exception of list(); a normal return yields one entry per non-dot line
                        mon["listing_lines_accounted"] = mon.get("listing_lines_accounted", 0) + 1
                        used_list = "LIST" in hs.cmds[-3:]
                        ref = c.parse_list_line if used_list else c.parse_mlsx_line
                        bad, good = [], 0
                        for ln in hs.listing_sent[before]:
                            try:
                                nm, _info = ref(ln + b"\r\n")
                                if str(nm) not in (".", ".."):
                                    good += 1
                            except Exception:
                                bad.append(ln)
                        if st == "ok" and bad:
                            viol.append({"key": f"unparsable-line-dropped:{op}",
                                         "msg": f"plan {plan}: the listing held line(s) {bad[:3]} which the line parser rejects, but list() "
                                                f"returned {len(r)} entries without any error"})
                        elif st == "ok" and isinstance(r, list) and len(r) != good:
                            viol.append({"key": f"line-dropped-silently:{op}",
                                         "msg": f"plan {plan}: {good} parseable non-dot lines sent {hs.listing_sent[before][:4]}, list() "
                                                f"returned {len(r)} entries"})
                    if (plan["target"] == "not_entry" and st == "ok" and op != "list_recursive" and len(hs.listing_sent) - before == 1
                            and isinstance(r, list)):
                        # independent of the client's parsers: the listing consists of known seed lines plus one line that is
                        # no '.'/'..' entry; a normal return therefore has an entry for every one of them
                        lines_ = hs.listing_sent[before]
                        seeds = MLSX + UNIX + WIN
                        n_dot = sum(1 for ln in lines_ if ln.endswith(b" .") or ln.endswith(b" ..") or ln == b"Size=0;Type=file; ")
                        mon["not_entry_accounted"] = mon.get("not_entry_accounted", 0) + 1
                        if len(r) < len(lines_) - n_dot:
                            extra = [ln for ln in lines_ if ln in NOT_ENTRIES]
                            viol.append({"key": f"line-dropped-silently:{op}:not-an-entry",
                                         "msg": f"plan {plan}: {len(lines_)} lines sent ({n_dot} of them dot entries), among them {extra}; "
                                                f"list() returned {len(r)} entries and reported nothing"})
                    if plan["target"] == "tree":
                        ndirs = 4 if op == "list_recursive" else 1
                        nlist = sum(1 for v in hs.cmds[cmds_before:] if v in ("LIST", "MLSD"))
                        mon["tree_listings"] = mon.get("tree_listings", 0) + 1
                        if st != "ok":
                            if st != "hang":
                                viol.append({"key": f"conformant-listing-fails:{op}",
                                             "msg": f"plan {plan}: {op} of a conformant server raised {r!r} after {nlist} listing commands "
                                                    f"(the tree has {ndirs} directories)"})
                        elif nlist > ndirs * (2 if plan.get("no_mlsd") else 1):
                            viol.append({"key": f"directory-listed-twice:{op}",
                                         "msg": f"plan {plan}: {nlist} listing commands for {ndirs} directories: {hs.cmds[cmds_before:]}"})
                elif op == "stat":
                    st, r = await call("stat", c.stat("/d/f"))
                    if st == "ok" and not isinstance(r, dict):
                        viol.append({"key": "ill-typed:stat", "msg": repr(r)})
                elif op == "download":
                    async def dl():
                        out = b""
                        async with c.download_stream("/d/f") as s:
                            async for b in s.iter_by_block(100):
                                out += b
                        return out
                    st, r = await call("download", dl())
                if st != "ok":
                    break
        c.close()
        hs.server.close()
        hs.data_server.close()
        await net.quiesce(0.5)
        for e in hyg.serious_loop_errors():
            viol.append({"key": "exception-reached-loop:client", "msg": f"{e}"})
        return {"violations": viol, "monitors": mon, "sig": sig_of([plan["target"], getattr(hs, "plan_bytes", b"").hex(), [x for l in hs.listing_sent for x in l][:6], calls]),
                "nontrivial": True, "calls": calls}
    finally:
        hs.server.close()
        hs.data_server.close()


def run_case(case):
    if case["kind"] == "server":
        return run_server_side(case["plan"])
    if case["kind"] == "parsers":
        return run_parsers(case["plan"])
    out = {"violations": [], "monitors": {}, "sigs": []}
    for plan in case["plans"]:
        async def main(net, hyg, plan=plan):
            return await client_side(net, hyg, plan)
        res, info = W.run(main, seed=plan["seed"], net_kwargs=dict(latency=0.0005), block_detector=False)
        if res is None:
            r = W.failed(info, f"plan={plan}")
            if r.get("inconclusive"):
                return r
            for v in r["violations"]:
                v["key"] = "client-hangs:deadlock"
                v["replay_case"] = {"kind": "client", "plans": [plan]}
                out["violations"].append(v)
            continue
        for k, v in res["monitors"].items():
            out["monitors"][k] = out["monitors"].get(k, 0) + v
        out["sigs"].append(res["sig"])
        for v in res["violations"]:
            v["replay_case"] = {"kind": "client", "plans": [plan]}
            out["violations"].append(v)
        out.setdefault("sample", {"plan": plan, "client_calls": res["calls"]})
        if any(v["key"].startswith(("client-loops-forever", "client-hangs")) for v in res["violations"]):
            break  # one hang per case is enough; each costs real time
    return out


def gen_cases(tier, seed):
    rng = random.Random(seed * 193 + 7)
    cases = []
    names = ["retr_pasv", "stor_pasv", "mlsd", "walk", "two_transfers", "rename", "list"]
    for i in range(240 if tier == "quick" else 20000):
        cases.append({"kind": "server", "plan": {"seed": seed * 100003 + i, "lines": rng.choice([5, 20, 60]),
                                                 "bystander": names[i % len(names)] if i % 3 else None, "wft_none": i % 4 == 1}})
    for i, tail in enumerate([b"MKD caf\xe2\x82", b"USER \xf0\x9f", b"\xc3", b"CWD /dir/\xe3\x81", b"PASS \xf0\x9f\x98", b"\r\n", b"NOOP\r\n\xe2"]):
        for lines in (0, 2):
            cases.append({"kind": "server", "plan": {"seed": seed * 31 + i * 4, "lines": lines, "tail": tail.hex(),
                                                     "bystander": names[i % len(names)] if i % 2 else None, "wft_none": False}})
    for i in range(12 if tier == "quick" else 200):
        cases.append({"kind": "server", "plan": {"seed": seed * 977 + i, "lines": 3, "deep": True, "bystander": names[i % len(names)] if i % 2 else None,
                                                 "wft_none": False}})
    npar = 100000 if tier == "quick" else 5000000
    per = 5000 if tier == "quick" else 50000
    for i in range(npar // per):
        cases.append({"kind": "parsers", "plan": {"seed": seed * 7 + i, "n": per // 9}})
    plans = []
    targets = ["greet", "USER", "PWD", "EPSV", "PASV", "TYPE", "MLST", "226", "listing", "listing", "listing", "none"]
    for i in range(600 if tier == "quick" else 50000):
        plans.append({"seed": seed * 31 + i, "target": rng.choice(targets), "budget": rng.choice([3, 6, 12, 40]),
                      "passive": rng.choice(["epsv", "pasv"]),
                      "ops": [rng.choice(["pwd", "list", "list_recursive", "list_raw", "stat", "download"]) for _ in range(rng.randint(1, 4))]})
    for i in range(60 if tier == "quick" else 1500):
        # valid lines plus one line that is not an entry (summary lines, error messages of the tool behind the server)
        plans.append({"seed": seed * 77 + i, "target": "not_entry", "budget": 12, "passive": rng.choice(["epsv", "pasv"]),
                      "no_mlsd": i % 3 == 1, "ops": [["list_raw"], ["list"], ["list_raw", "list"]][i % 3]})
    for dots in ("none", "dot", "full"):
        for no_mlsd in (False, True):
            for passive in ("epsv", "pasv"):
                for ops in (["list_recursive"], ["list", "list_recursive", "list_raw"], ["list_raw", "list_recursive"]):
                    plans.append({"seed": seed, "target": "tree", "dots": dots, "no_mlsd": no_mlsd, "budget": 120, "passive": passive, "ops": ops})
    # a line that is no entry, and a transfer that ends badly (426) or whose completion reply never comes
    for i, closing in enumerate(("426 data connection closed", "451 local error", "silent", "550 no", "silent", "426 aborted")):
        plans.append({"seed": seed * 77 + i, "target": "not_entry", "budget": 12, "passive": ["epsv", "pasv"][i % 2], "no_mlsd": i % 2 == 1,
                      "ops": [["list_raw"], ["list"]][i % 2], "closing": closing})
    # a passive-mode answer pointing at a port where connects are never answered, a client with connection_timeout: the call ends
    # (by that time-out) instead of waiting for the operating system to give up
    for passive in ("epsv", "pasv"):
        for ops in (["list"], ["download"], ["stat", "list_raw"], ["list_recursive"]):
            for ct in (1, 5):
                plans.append({"seed": seed, "target": "blackhole", "budget": 40, "passive": passive, "ops": ops,
                              "client_kwargs": {"connection_timeout": ct, "socket_timeout": ct}})
    cases += [{"kind": "client", "plans": plans[i:i + 25]} for i in range(0, len(plans), 25)]
    return cases
