"""C12 - a session that ends, at any point and for any reason, releases everything."""

import asyncio
import random

from .. import boot  # noqa: F401
from .. import world as W
from ..corpus import Session, corpus, corpus_tree, corpus_users
from ..drive import Drive
from ..runner import sig_of, rearm

PROPERTY = "C12"
LEVEL = "fault_enumeration"
RULE = ("for each corpus script (all verbs / transfer kinds), each ending {peer RST on all sockets, peer FIN on all "
        "sockets, RST on control only with the data socket left open and reading, server.close() with the peer idle} "
        "and each network event k of the fault-free run: deliver the ending right after event k (optionally i loop "
        "iterations later), stop all input, reach quiescence (5 virtual s) and judge the ledger.  distinct = distinct "
        "(script, ending, event order up to the cut) signatures; every sub-run is non-trivial (a session was cut).")
RULE += ("  " + 'Also: reply flood whose peer never reads; slow back end with a latency grid; slow reply writer; Server.close() long after the scripts ended; unlimited data-connection wait; 2 s back-end close() with an audit of tasks and open files at the very moment close() returns.')
RULE += ("  " + 'Also (round 7): blocks waiting behind read / per-connection limits when the session ends; the simulator no longer closes a listener whose create_server() was cancelled (CPython 3.12.1 does not).')
RULE += ("  " + 'Also (round 8): the second life of a Server object (start, serve, close, start) under cuts and server-close; a back end whose constructor raises for the first sessions.')
RULE += ("  " + 'Also (round 9): REST followed by APPE/STOR of missing and existing files, the session ended in every way afterwards (open-handle ledger).')
RULE += ("  " + "Also (round 10): the executor back end with jobs that take a moment (exec_delay) and with a busy pool (exec_queue_delay: a job waits in the queue and is taken back when its waiter is cancelled); every file object opened below the world's directory is recorded, whoever gets to see it, and must be closed at quiescence.")
RULE += ("  " + 'Also (round 11): PASV / EPSV and a second data connection while a transfer runs on the first, the second never used; the peer says QUIT and keeps its sockets open.')
ASSUMPTIONS = [
    "in-memory network model (harness/simnet.py); a transport closed only by StreamWriter.__del__ counts as leaked",
    "quiescence bound: 5 virtual seconds after the cut without further input",
    "asyncio.Server.wait_closed has 3.12.1 semantics (waits for accepted connections)",
]
REQUIRED_MONITORS = ["ledger_at_quiescence", "task_audit", "server_close_returns"]
ANCHOR_FUNCTIONS = ['server.py:Server.dispatcher', 'server.py:Server.close', 'common.py:ThrottleStreamIO.__aexit__']
EXHAUSTIVE = {"quick": True, "thorough": True}
WALL_BUDGET = {"quick": 900, "thorough": 7200}

QUICK_SCRIPTS = ["login_quit", "walk", "stor_pasv", "stor_epsv_after", "retr_pasv", "retr_epsv_after", "retr_rest",
                 "list", "mlsd", "rename", "two_transfers", "pasv_twice", "noconnect", "appe", "stor_slow", "abor_mid", "pipelined"]
ACTIONS = ["rst", "fin", "ctrl-rst", "server-close"]


def step_kind(session):
    st = session.current_step
    if not st:
        return "none"
    if st[0] == "xfer":
        return "xfer:" + st[1]
    if st[0] == "cmd":
        return "cmd:" + st[1].split(" ")[0]
    return st[0]


async def execute(net, hyg, plan):
    prefixes = plan.get("prefixes") or [""]
    net.loop.exec_delay = plan.get("exec_delay", 0.0)
    net.loop.exec_queue_delay = plan.get("exec_queue_delay", 0.0)
    w = W.World(net, tree=corpus_tree(prefixes), users=corpus_users, backend=plan.get("backend", "memory"),
                **(plan.get("server_kwargs") or {}))
    try:
        await w.start()
        if plan.get("second_run"):
            # this is the Server object's second life: it served a session, was closed and is started again
            s0 = Session(net, 2121, name="first-life")
            await s0.run([["connect"], ["login"], ["epsv"], ["data"], ["xfer", "RETR", "/f.bin"], ["quit"]])
            s0.peer.cut("fin")
            await asyncio.wait_for(w.server.close(), 30)
            await net.quiesce(0.5)
            await w.server.start(w.host, w.port)
        bd = plan.get("backend_delay")
        if bd:
            rng = random.Random(plan.get("seed", 0))
            w.ctl.delay = lambda op, path, n: rng.choice(bd)
        if plan.get("init_fails"):
            # the back end cannot be set up for the next session(s): its constructor raises
            left = {"n": plan["init_fails"]}

            def fail_init(n_instances):
                if left["n"] > 0:
                    left["n"] -= 1
                    return RuntimeError("back end unavailable for this session")
            w.ctl.fail_init = fail_init
        if plan.get("slow_close"):
            w.ctl.delay = lambda op, path, n: plan["slow_close"] if op == "close" else 0
        if plan.get("inline"):
            scripts = plan["inline"]
        else:
            scripts = [corpus(p)[name] for p, name in zip(prefixes, plan["scripts"])]
        d = Drive(net, w, scripts, offsets=plan.get("offsets"), cut=plan.get("cut"))
        await d.run()
        viol = []
        mon = {"ledger_at_quiescence": 0, "task_audit": 0, "server_close_returns": 0}
        cut = plan.get("cut")
        if plan.get("late_close") is not None and not cut:
            # the scripts ran to their end (sessions may have been dropped by the server's own timeouts meanwhile); the peers
            # stay connected, silent and not reading, and only now the server is closed
            await asyncio.sleep(plan["late_close"])
            for s_ in d.sessions:
                s_.peer.freeze()
                if plan.get("late_read"):
                    # ... or the peers finally read everything that was waiting for them (the closed transports flush and
                    # finish on their own) and stay connected
                    for tr_ in [s_.peer.writer.transport] if s_.peer.writer is not None else []:
                        tr_.resume_reading()
                    for _r, w_ in s_.peer.data_conns:
                        w_.transport.resume_reading()
                    for rd in [s_.peer.reader] + [r_ for r_, _w in s_.peer.data_conns]:
                        d.drainers.append(asyncio.ensure_future(d._drain(rd)))
                else:
                    if s_.peer.writer is not None:
                        s_.peer.writer.transport.pause_reading()
                    for _r, w_ in s_.peer.data_conns:
                        w_.transport.pause_reading()
                s_.alive = False
            if plan.get("late_read"):
                await asyncio.sleep(5.0)
            cut = {"k": -1, "action": "server-close-late", "who": "all"}
            d.close_task = asyncio.ensure_future(w.server.close())
            d.cut_done = True
        action = cut["action"] if cut else None
        who = (cut.get("who", 0) if cut else 0)
        stage = step_kind(d.sessions[who if who != "all" else 0]) if cut and d.cut_done else "end"
        if action and action.endswith("+close") and d.cut_done:
            for _ in range(40):
                if d.close_task is not None:
                    break
                await asyncio.sleep(0)
        if action and (action.startswith("server-close") or action.endswith("+close")) and d.cut_done:
            mon["server_close_returns"] += 1
            await asyncio.wait([d.close_task], timeout=10.0)
            if not d.close_task.done():
                viol.append({"key": f"server-close-hangs-during-{stage}",
                             "msg": f"Server.close() called after event {cut['k']} (peer idle, step {stage}) did not return "
                                    f"within 10 virtual seconds"})
            elif d.close_task.exception() is not None:
                viol.append({"key": "server-close-raises", "msg": repr(d.close_task.exception())})
            else:
                # at the very moment close() has returned: no task of the server is still running, no back-end file is open
                mon["audit_at_close_return"] = mon.get("audit_at_close_return", 0) + 1
                mine0 = d.harness_tasks() | {asyncio.current_task()}
                alive0 = sorted({(t.get_coro().__qualname__ if t.get_coro() else "?") for t in asyncio.all_tasks()
                                 if not t.done() and t not in mine0})
                if alive0:
                    viol.append({"key": f"task-alive-when-close-returned-during-{stage}",
                                 "msg": f"Server.close() after event {cut['k']} (step {stage}) returned while {alive0} were still running"})
                if w.ctl.open_handles:
                    viol.append({"key": f"file-open-when-close-returned-during-{stage}",
                                 "msg": f"Server.close() after event {cut['k']} (step {stage}) returned with back-end files open: "
                                        f"{w.ctl.open_handles[:2]}"})
        quiet = await net.quiesce(5.0)
        if not quiet:
            return {"inconclusive": "no quiescence within bound"}
        mon["ledger_at_quiescence"] += 1
        closed_srv = bool(action) and (action.startswith("server-close") or action.endswith("+close")) and d.cut_done
        # sessions that were not cut ended by QUIT; whoever is still alive is closed by the harness first
        alive = [s for s in d.sessions if s.alive]
        leaks = w.leaks(expect_server_closed=closed_srv)
        if alive and not closed_srv:
            leaks = []  # scripts always end with QUIT; an alive session here means the script was cut short: judged below
        for leak in leaks:
            res = leak.split(" ")[0] + "-" + leak.split(" ")[1]
            if "port 2121" in leak:
                res = "control-transport"
            elif "transport" in leak:
                res = "data-transport"
            elif "listener" in leak:
                res = "listener"
            elif "file handles" in leak:
                res = "file-handle"
            elif "connections" in leak:
                res = "connections-entry"
            viol.append({"key": f"{res}-leaked-after-{action or 'quit'}-during-{stage}",
                         "msg": f"{leak} at quiescence after {action or 'orderly end'} at event "
                                f"{cut['k'] if cut else None} (step {stage})"})
        mon["task_audit"] += 1
        mine = d.harness_tasks() | {asyncio.current_task()}
        pend = [t for t in asyncio.all_tasks() if not t.done() and t not in mine]
        if pend and alive and not closed_srv:
            pend = []   # as for the ledger: a script without QUIT that was not cut leaves a live, legitimate session
        if pend:
            names = sorted({(t.get_coro().__qualname__ if t.get_coro() else "?") for t in pend})
            viol.append({"key": f"task-pending-after-{action or 'quit'}-during-{stage}",
                         "msg": f"{len(pend)} server task(s) still pending at quiescence: {names}"})
        d.finish_peers()
        if not closed_srv:
            ct = asyncio.ensure_future(w.server.close())
            await asyncio.wait([ct], timeout=10.0)
            if not ct.done():
                viol.append({"key": f"final-server-close-hangs-after-{action or 'quit'}-during-{stage}",
                             "msg": "Server.close() after the scenario did not return within 10 virtual seconds"})
                ct.cancel()
        sig = sig_of([plan["scripts"], action, cut["k"] if cut else None, net.order_signature()[: (cut["k"] + 1) if cut else None],
                      [s.flat_codes() for s in d.sessions]])
        return {"violations": viol, "monitors": mon, "nevents": len(net.events), "sig": sig,
                "codes": [s.flat_codes() for s in d.sessions], "cut_done": d.cut_done, "stage": stage}
    finally:
        w.cleanup()


def run_plan(plan):
    rearm()
    async def main(net, hyg):
        return await execute(net, hyg, plan)
    res, info = W.run(main, seed=plan.get("seed", 0),
                      net_kwargs=dict(mss=plan.get("mss", 1460), latency=plan.get("latency", 0.001),
                                      jitter=plan.get("jitter", 0.0)))
    if res is None:
        return W.failed(info)
    if res.get("inconclusive"):
        return res
    h = info["hygiene"]
    bad = h.pending_task_destroyed()
    if bad:
        res["violations"].append({"key": "task-destroyed-pending", "msg": f"asyncio reported: {bad[:2]}"})
    res["monitors"]["hygiene"] = 1
    return res


def run_case(case):
    out = {"violations": [], "monitors": {}, "sigs": [], "stats": {}}
    base = dict(case["plan"])

    def merge(res, plan, label):
        if res.get("inconclusive"):
            out["inconclusive"] = f"{label}: {res['inconclusive']}"
            out["trace"] = res.get("trace", "")
            return False
        for k, v in res["monitors"].items():
            out["monitors"][k] = out["monitors"].get(k, 0) + v
        out["sigs"].append(res["sig"])
        for v in res["violations"]:
            v["replay_case"] = {"kind": "single", "plan": plan}
            v["msg"] = f"[{'+'.join(plan['scripts'])} {label}] " + v["msg"]
            out["violations"].append(v)
        return True

    if case["kind"] == "single":
        res = run_plan(base)
        merge(res, base, "single")
        out["sample"] = {"plan": base, "codes": res.get("codes")}
        return out
    base["cut"] = None
    res0 = run_plan(base)
    if not merge(res0, base, "baseline"):
        return out
    N = res0["nevents"]
    covered = 0
    ks = range(N)
    if case.get("stride"):
        ks = range(case.get("phase", 0), N, case["stride"])
    for k in ks:
        for it in case.get("iters", [0]):
            plan = dict(base)
            plan["cut"] = {"k": k, "action": case["action"], "who": case.get("who", 0),
                           "iters": it if not case["action"].endswith("+close") else 0,
                           "close_after": it if case["action"].endswith("+close") else 0,
                           "zero_latency": case.get("zero_latency", False) or case["action"].endswith("+close")}
            res = run_plan(plan)
            if not merge(res, plan, f"{case['action']}@{k}+{it}"):
                return out
            if res.get("cut_done"):
                covered += 1
    out["stats"]["cut_positions_covered"] = covered
    out["stats"]["cut_positions_total"] = len(list(ks)) * len(case.get("iters", [0]))
    out["sample"] = {"scripts": base["scripts"], "ending": case["action"], "events_in_baseline": N,
                     "positions_cut": covered, "baseline_codes": res0.get("codes")}
    return out


_LOGIN = [["connect"], ["login"]]
LATE = {
    "flood": _LOGIN + [["flood", 3000, 90], ["sleep", 1.0]],
    "retr_huge_stall": _LOGIN + [["pasv"], ["data"], ["cmd", "RETR /huge.bin"], ["sleep", 1.0]],    # 150, then nobody reads the data
    "login_idle": _LOGIN + [["cmd", "PWD"], ["sleep", 1.0]],
}


def gen_cases(tier, seed):
    rng = random.Random(seed * 31 + 5)
    cases = []
    names = QUICK_SCRIPTS if tier == "quick" else sorted(n for n in corpus() if n not in ("flood", "noconnect_nowait"))
    for name in names:
        for action in ACTIONS:
            cases.append({"kind": "enum", "action": action, "plan": {"scripts": [name], "seed": seed}})
    # zero-latency + a few loop iterations after the event: windows that lie between two network events
    for name in (["retr_pasv", "stor_epsv_after", "pasv_twice", "mlsd"] if tier == "quick" else names):
        for action in ["rst", "fin"]:
            cases.append({"kind": "enum", "action": action, "iters": [1, 2, 3] if tier == "quick" else [1, 2, 3, 5, 8],
                          "zero_latency": True, "plan": {"scripts": [name], "seed": seed}})
    # the session ends on its own (reset / FIN / QUIT) and Server.close() lands inside its clean-up
    for name in (["login_quit", "retr_pasv"] if tier == "quick" else ["login_quit", "retr_pasv", "stor_slow", "mlsd", "pasv_twice"]):
        for action in ("rst+close", "fin+close", "quit+close"):
            cases.append({"kind": "enum", "action": action, "iters": list(range(0, 14)), "stride": 5 if tier == "quick" else 2,
                          "phase": 2, "plan": {"scripts": [name], "seed": seed}})
    # flow-controlled download: the peer stops reading the data socket and its control connection vanishes
    for action in ("ctrl-rst-noread", "rst", "server-close"):
        cases.append({"kind": "enum", "action": action, "stride": 9 if tier == "quick" else 2, "phase": seed % 2,
                      "plan": {"scripts": ["retr_huge"], "seed": seed}})
    cases.append({"kind": "enum", "action": "ctrl-rst-noread", "plan": {"scripts": ["stor_slow"], "seed": seed}})
    # slow back end: the cut lands while the worker is inside open()/seek()/close() of the back end
    for name in ("retr_pasv", "stor_pasv", "stor_rest", "stor_rest_missing", "mlsd"):
        for action in ("rst", "server-close"):
            cases.append({"kind": "enum", "action": action, "stride": 2 if tier == "quick" else 1, "phase": seed % 2,
                          "plan": {"scripts": [name], "backend_delay": [0.005], "seed": seed}})
    # ... and inside the second, third back-end call of the worker (open -> seek -> read/write -> close): the reset travels
    # longer than one call takes
    for name in ("retr_rest", "stor_rest", "appe"):
        for lat in ((0.003, 0.005, 0.007) if tier == "quick" else (0.003, 0.005, 0.007, 0.009, 0.011)):
            for action in ("rst", "server-close"):
                cases.append({"kind": "enum", "action": action,
                              "plan": {"scripts": [name], "backend_delay": [0.002], "latency": lat, "seed": seed}})
    # an unlimited wait for the data connection: the session ends while a transfer still waits for it
    for name in ("noconnect", "retr_epsv_after", "stor_epsv_after"):
        for action in ("rst", "fin", "server-close"):
            cases.append({"kind": "enum", "action": action,
                          "plan": {"scripts": [name if name != "noconnect" else "noconnect_nowait"], "seed": seed,
                                   "server_kwargs": {"wait_future_timeout": None}}})
    # slow clean-up: the back end's close() takes 2 s, path_timeout is configured (and irrelevant for this back end)
    for name in ("stor_pasv", "retr_pasv", "appe"):
        for action in ("server-close", "rst"):
            cases.append({"kind": "enum", "action": action, "stride": 2 if tier == "quick" else 1,
                          "plan": {"scripts": [name], "seed": seed, "slow_close": 2.0, "server_kwargs": {"path_timeout": 0.2}}})
    # slow reply writer (server-wide write limit): replies are still queued behind the throttle when the session ends
    for name in (["login_quit", "walk", "stor_pasv", "pipelined"] if tier == "quick" else ["login_quit", "walk", "stor_pasv", "retr_pasv", "mkd_rmd", "rename", "pipelined"]):
        for action in ("rst", "fin", "server-close"):
            cases.append({"kind": "enum", "action": action,
                          "plan": {"scripts": [name], "seed": seed, "server_kwargs": {"write_speed_limit": 150}}})
    # ... and the other limits: uploads and downloads whose blocks wait behind a server-wide / per-connection read or write limit
    lim_scripts = ["stor_pasv", "retr_pasv"] if tier == "quick" else ["stor_pasv", "retr_pasv", "appe", "mlsd", "two_transfers", "abor_mid"]
    lim_kwargs = [{"read_speed_limit": 3000}, {"write_speed_limit_per_connection": 3000}] if tier == "quick" else \
        [{"read_speed_limit": 3000}, {"write_speed_limit_per_connection": 3000}, {"read_speed_limit_per_connection": 2000, "write_speed_limit": 5000},
         {"write_speed_limit": 2500, "write_speed_limit_per_connection": 4000}]
    for name in lim_scripts:
        for kw in lim_kwargs:
            for action in ("rst", "server-close"):
                cases.append({"kind": "enum", "action": action, "stride": 3 if tier == "quick" else 1, "phase": seed % 3,
                              "plan": {"scripts": [name], "seed": seed, "server_kwargs": kw}})
    # restart offset + APPE / STOR on files that do not exist (and do), then the session ends in every way
    rest_scripts = {
        "appe_rest_missing": [["connect"], ["login"], ["epsv"], ["cmd", "REST 5"], ["xfer", "APPE", "/missing-appe.bin", 3], ["cmd", "PWD"], ["quit"]],
        "appe_rest_existing": [["connect"], ["login"], ["epsv"], ["cmd", "REST 5"], ["xfer", "APPE", "/f.bin", 3], ["epsv"], ["cmd", "REST 2"],
                               ["xfer", "STOR", "/dir/g.txt", 4], ["quit"]],
    }
    # PASV and a second data connection while a transfer is running on the first; the second one is never used
    rest_scripts["pasv_during_transfer"] = [["connect"], ["login"], ["pasv"], ["data"], ["raw", b"RETR /huge.bin\r\n".hex(), "noreply"],
                                            ["sleep", 0.03], ["cmd", "PASV"], ["data"], ["sleep", 0.03], ["quit"]]
    rest_scripts["epsv_during_upload"] = [["connect"], ["login"], ["epsv"], ["data"], ["raw", b"STOR /slow-up.bin\r\n".hex(), "noreply"],
                                          ["sleep", 0.03], ["cmd", "EPSV"], ["data"], ["sleep", 0.03], ["cmd", "PWD"], ["quit"]]
    for name, sc in rest_scripts.items():
        for action in ("rst", "server-close", "fin"):
            for backend in ("memory", "pathio"):
                cases.append({"kind": "enum", "action": action, "stride": 2 if tier == "quick" else 1, "phase": seed % 2,
                              "plan": {"scripts": [name], "inline": [sc], "seed": seed, "backend": backend}})
    # ... the same on a server that sends slowly (the running transfer is between two blocks, not stuck in a write, when the
    # second PASV comes), the session going on for a while afterwards
    slow = [["connect"], ["login"], ["pasv"], ["data"], ["raw", b"RETR /huge.bin\r\n".hex(), "noreply"], ["sleep", 0.3], ["cmd", "PASV"], ["data"],
            ["sleep", 1.5], ["raw", b"PWD\r\n".hex(), "noreply"], ["raw", b"QUIT\r\n".hex(), "noreply"], ["sleep", 0.5], ["sleep", 0.5]]
    # (the peer says QUIT and keeps its sockets open: what the session leaves behind is the server's to close)
    for action in ("server-close", "rst", "fin"):
        cases.append({"kind": "enum", "action": action, "stride": (1 if action == "server-close" else 3) if tier == "quick" else 1, "phase": seed % 3 if action != "server-close" else 0,
                      "plan": {"scripts": ["pasv_during_slow_transfer"], "inline": [slow], "seed": seed,
                               "server_kwargs": {"write_speed_limit_per_connection": 40000}}})
    # the executor back end, every job of which takes a moment: the session ends (or the server closes) while a thread is busy
    for name in (("retr_pasv", "stor_pasv") if tier == "quick" else ("retr_pasv", "stor_pasv", "appe", "retr_rest", "two_transfers", "mlsd")):
        for action in ("rst", "server-close", "fin"):
            cases.append({"kind": "enum", "action": action, "stride": 2 if tier == "quick" else 1, "phase": seed % 2,
                          "plan": {"scripts": [name], "backend": "async", "exec_delay": 0.0007, "seed": seed}})
            # ... and a busy pool: every job waits a moment in the queue before a thread takes it
            cases.append({"kind": "enum", "action": action, "stride": 2 if tier == "quick" else 1, "phase": (seed + 1) % 2,
                          "plan": {"scripts": [name], "backend": "async", "exec_queue_delay": 0.0006, "exec_delay": 0.0003, "seed": seed}})
    # a back end whose constructor raises for the first session(s): that session ends by this error, nothing of it stays
    for name in ("login_quit", "retr_pasv"):
        for n_fail in (1, 2):
            cases.append({"kind": "single", "plan": {"scripts": [name, "walk", "walk"][:n_fail + 1], "prefixes": ["", "/p1", "/p2"][:n_fail + 1], "seed": seed,
                                                     "init_fails": n_fail, "offsets": [0, 0.01, 0.02][:n_fail + 1], "late_close": 1.0}})
    # the second life of a Server object (start, close, start): everything holds as in the first
    for name in ("retr_pasv", "stor_pasv", "walk") if tier == "quick" else ("retr_pasv", "stor_pasv", "walk", "mlsd", "two_transfers", "pasv_twice"):
        for action in ("server-close", "rst"):
            cases.append({"kind": "enum", "action": action, "stride": 3 if tier == "quick" else 1, "phase": seed % 3,
                          "plan": {"scripts": [name], "seed": seed, "second_run": True}})
    # Server.close() long after the scripts ended: sessions already dropped by the server's own timeouts may have left
    # sockets behind that the (silent, non-reading) peers still hold
    for name in ("flood", "retr_huge_stall", "login_idle"):
        for kw in ({"idle_timeout": 2}, {"socket_timeout": 2}, {"idle_timeout": 3, "socket_timeout": 2}, {}):
            cases.append({"kind": "single", "plan": {"scripts": ["late:" + name], "inline": [LATE[name]], "seed": seed, "late_close": 40.0,
                                                     "server_kwargs": kw}})
            cases.append({"kind": "single", "plan": {"scripts": ["late-read:" + name], "inline": [LATE[name]], "seed": seed, "late_close": 40.0,
                                                     "late_read": True, "server_kwargs": kw}})
    # reply flood: the peer never reads its control connection, the replies fill every buffer on the way back; then it
    # vanishes, or stays (silent, not reading) while Server.close() is called
    for action in ("server-close-noread", "server-close", "rst", "fin", "ctrl-rst-noread"):
        cases.append({"kind": "enum", "action": action, "stride": 97 if tier == "quick" else 13, "phase": seed % 13,
                      "plan": {"scripts": ["flood"], "seed": seed}})
    # server.close() a few loop iterations after each event (e.g. after the SYN of a data connection)
    for name in (["retr_pasv", "stor_epsv_after"] if tier == "quick" else names):
        cases.append({"kind": "enum", "action": "server-close", "who": "all", "iters": [1, 2, 3] if tier == "quick" else [1, 2, 3, 4, 6],
                      "plan": {"scripts": [name], "seed": seed}})
    # the control connection vanishes and the data connection arrives i iterations later
    login = [["connect"], ["login"]]
    for pcmd in ("pasv", "epsv"):
        for ck in ("rst", "fin"):
            for it in range(0, 10 if tier == "quick" else 16):
                for pre in ([[]] if tier == "quick" else [[], [["cmd", "TYPE I"], [pcmd], ["xfer", "RETR", "/dir/g.txt"]]]):
                    cases.append({"kind": "single", "plan": {"scripts": ["race:%s:%s:%d" % (pcmd, ck, it)], "seed": seed,
                                                             "inline": [login + pre + [[pcmd], ["cut_then_data", ck, it]]]}})
    # concurrency: a bystander on another prefix, the second session is cut
    pairs = [("retr_pasv", "stor_pasv"), ("mlsd", "retr_epsv_after")] if tier == "quick" else \
        [(rng.choice(names), rng.choice(names)) for _ in range(12)]
    for a, b in pairs:
        for action in (["rst", "server-close"] if tier == "quick" else ACTIONS):
            cases.append({"kind": "enum", "action": action, "who": 1 if action != "server-close" else "all",
                          "stride": 1 if tier == "thorough" else 2, "phase": seed % 2,
                          "plan": {"scripts": [a, b], "prefixes": ["/s0", "/s1"], "offsets": [0, 0.0037], "seed": seed}})
    if tier == "thorough":
        # other segmentations / latencies / back-end delays / file-system back ends
        for name in names:
            for action in ACTIONS:
                cases.append({"kind": "enum", "action": action,
                              "plan": {"scripts": [name], "mss": rng.choice([7, 64, 536]), "latency": rng.choice([0.0005, 0.003]),
                                       "backend_delay": [0, 0, 0.0007, 0.002], "seed": seed + 1}})
        for name in ["retr_pasv", "stor_pasv", "mlsd", "list", "two_transfers", "appe"]:
            for action in ["rst", "server-close"]:
                cases.append({"kind": "enum", "action": action, "stride": 2,
                              "plan": {"scripts": [name], "backend": "pathio", "seed": seed}})
        for name in ["retr_pasv", "stor_pasv", "mlsd"]:
            cases.append({"kind": "enum", "action": "rst", "stride": 5, "phase": seed % 5,
                          "plan": {"scripts": [name], "backend": "async", "seed": seed}})
    return _split_heavy(cases) if tier == "thorough" else cases


HEAVY = {"retr_huge": 8, "abor_mid": 8, "flood": 4, "stor_slow": 2, "two_transfers": 2}


def _split_heavy(cases):
    """an enumeration over a script with thousands of events is cut into P interleaved parts (same positions overall), so
    that the longest single case stays short and the workers stay busy"""
    out = []
    for c in cases:
        parts = max([HEAVY.get(n, 1) for n in c["plan"].get("scripts", [])] or [1]) if c["kind"] == "enum" else 1
        if parts == 1:
            out.append(c)
            continue
        stride, phase = c.get("stride") or 1, c.get("phase", 0)
        for i in range(parts):
            out.append(dict(c, stride=stride * parts, phase=phase + stride * i))
    return out
