"""Sequential reference model of the FTP command set aioftp supports (DESIGN.md 2.4).

No aioftp import.  ``Model.step(verb, arg, data)`` returns an ``Expect`` describing the
acceptable outcomes of that command and applies the state change; where the
documentation is silent the expectation is a *set* and ``Model.observe`` follows the
branch the implementation took.

The exact code is constrained only where the property statement or aioftp's own
client depends on it (see DESIGN.md 2.4).
"""

DIR = "<DIR>"


def norm(cwd, arg):
    """Independent lexical normaliser: returns the absolute virtual path."""
    if arg.startswith("/"):
        parts = []
        segs = arg.split("/")
    else:
        parts = [p for p in cwd.split("/") if p]
        segs = arg.split("/")
    for s in segs:
        if s == "" or s == ".":
            continue
        if s == "..":
            if parts:
                parts.pop()
        else:
            parts.append(s)
    return "/" + "/".join(parts)


def parent(p):
    if p == "/":
        return "/"
    return p.rsplit("/", 1)[0] or "/"


class Expect:
    """marks: number of 1xx replies expected before the final one.
    codes: set of acceptable exact final codes, or None if only the class matters.
    classes: acceptable first digits of the final reply.
    closes: the server may/must end the session after this reply (None = must not)."""

    def __init__(self, codes=None, classes=None, marks=0, closes=False, note=""):
        self.codes = set(codes) if codes else None
        self.classes = set(classes) if classes else ({c[0] for c in codes} if codes else None)
        self.marks = marks
        self.closes = closes
        self.note = note
        self.data = None          # expected download bytes, if any
        self.names = None         # expected listing names, if any
        self.branches = None      # {code-prefix: callable applied on observe}

    def accepts(self, code):
        if any(code.startswith(p) for p in getattr(self, "forbid", ())):
            return False
        if self.codes is not None:
            return code in self.codes
        return code[0] in self.classes

    def __repr__(self):
        return f"Expect(marks={self.marks}, codes={sorted(self.codes) if self.codes else None}, classes={sorted(self.classes or [])}, closes={self.closes}, {self.note})"


class Model:
    def __init__(self, users, tree, home="/"):
        # users: {login|None: password|None}; login None = anonymous catch-all
        self.users = dict(users)
        self.tree = dict(tree)
        self.home = home
        self.user = None
        self.logged = False
        self.cwd = home
        self.rename_from = None      # None | path | ("maybe", path)
        self.rest = 0
        self.rest_maybe = None
        self.passive = False
        self.alive = True

    # ------------------------------------------------------------- tree helpers
    def exists(self, p):
        return p == "/" or p in self.tree

    def is_dir(self, p):
        return p == "/" or self.tree.get(p) == DIR

    def is_file(self, p):
        return p in self.tree and self.tree[p] != DIR

    def children(self, p):
        pre = p.rstrip("/") + "/"
        return sorted(k[len(pre):] for k in self.tree if k.startswith(pre) and "/" not in k[len(pre):])

    def through_file(self, p):
        """some proper ancestor of p is a file"""
        q = parent(p)
        while q != "/":
            if self.is_file(q):
                return True
            q = parent(q)
        return False

    # ------------------------------------------------------------------- step
    def step(self, verb, arg="", data="before", payload=b""):
        v = verb.upper()
        # the restart offset "applies only to the immediately following transfer": whatever command comes next ends it -
        # a transfer command uses it or, when it is refused (503, 550), lets it lapse
        reset_rest = v != "REST"
        try:
            return self._step(v, arg, data, payload)
        finally:
            if reset_rest:
                self.rest = 0

    def _refused(self):
        """a path / precondition failure: a 5xx that is not 50x (aioftp's client takes 50x for 'command not supported' and
        falls back to another command); the exact code is fixed by the statement only for MLST (Client.exists keys on 550)"""
        e = Expect(classes="5", note="refused (5xx, not 50x)")
        e.forbid = ("50",)
        return e

    def _need_login(self):
        return Expect(["503"], note="not logged in")

    def _step(self, v, arg, data, payload):
        if v == "USER":
            self.user, self.logged = None, False
            self.rename_from = None
            if arg in getattr(self, "held", ()):
                # the account's connection limit is used up by other sessions: refused, the session stays unidentified
                return Expect(["530"], note="account at its connection limit")
            if arg in self.users and arg is not None:
                self.user = arg
                self.cwd = self.home
                if self.users[arg] is None:
                    self.logged = True
                    return Expect(["230"])
                return Expect(["331"])
            if None in self.users:
                self.anon = True
                self.user = "<anonymous>"
                self.cwd = self.home
                if self.users[None] is not None:
                    # the catch-all account has a password: it is asked for like any other
                    return Expect(["331"])
                self.logged = True
                return Expect(["230"])
            return Expect(["530"])
        if v == "PASS":
            if self.user is None:
                return Expect(["503"])
            if self.logged:
                return Expect(["503"])
            if self.users.get(None if self.user == "<anonymous>" else self.user) == arg:
                self.logged = True
                return Expect(["230"])
            return Expect(["530"])
        if v == "QUIT":
            self.alive = False
            return Expect(["221"], closes=True)
        if v == "SYST":
            return Expect(["215"])
        if v == "REST":
            self.rest_maybe = None
            if arg.isascii() and arg.isdigit():
                if len(arg) > 18:
                    # an offset beyond any file (and, past 4300 digits, beyond what int() converts): accepted as a huge
                    # offset or refused as malformed - never a dropped session
                    e = Expect(classes="35", note="astronomic offset")
                    model = self
                    self.rest = 0

                    def took_huge():
                        model.rest = 2 ** 62
                    e.branches = {"3": took_huge}
                    return e
                self.rest = int(arg)
                return Expect(["350"])
            self.rest = 0
            try:
                n = int(arg) if arg.isdigit() else None
            except ValueError:
                n = None
            if n is not None:
                # non-ASCII decimal digits: accepting them as the number they denote is tolerated
                e = Expect(classes="35", note="non-ASCII decimal digits")
                model = self

                def took():
                    model.rest = n
                e.branches = {"3": took}
                return e
            return Expect(classes="5", note="malformed REST")
        known = {"PWD", "CWD", "CDUP", "MKD", "RMD", "MLSD", "LIST", "MLST", "RNFR", "RNTO", "DELE", "STOR", "APPE",
                 "RETR", "TYPE", "PBSZ", "PROT", "PASV", "EPSV", "ABOR"}
        if v not in known:
            return Expect(["502"], note="unknown verb")
        if v == "ABOR":
            # (needs no login: it only ever touches transfers of this very session; C14: "with no transfer at all - a single 226")
            return Expect(["226"])
        if not self.logged:
            return self._need_login()
        if v == "PWD":
            e = Expect(["257"])
            e.pwd = self.cwd
            return e
        if v in ("CWD", "CDUP"):
            p = norm(self.cwd, arg) if v == "CWD" else parent(self.cwd)
            if not self.is_dir(p):
                return self._refused()
            self.cwd = p
            return Expect(["250"])
        if v == "MKD":
            p = norm(self.cwd, arg)
            if self.exists(p):
                return self._refused()
            if self.through_file(p):
                return Expect(classes="45", note="mkdir through a file")
            q = p
            add = []
            while q != "/" and not self.exists(q):
                add.append(q)
                q = parent(q)
            for q in add:
                self.tree[q] = DIR
            return Expect(["257"])
        if v == "RMD":
            p = norm(self.cwd, arg)
            if not self.is_dir(p):
                return self._refused()
            if self.children(p):
                return Expect(classes="45", note="rmdir non-empty")
            del self.tree[p]
            return Expect(["250"])
        if v == "DELE":
            p = norm(self.cwd, arg)
            if not self.is_file(p):
                return self._refused()
            del self.tree[p]
            return Expect(["250"])
        if v == "MLST":
            p = norm(self.cwd, arg)
            if not self.exists(p):
                return Expect(["550"])
            e = Expect(["250"])
            e.mlst = ("dir" if self.is_dir(p) else "file", None if self.is_dir(p) else len(self.tree[p]),
                      p.rsplit("/", 1)[1])
            return e
        if v == "RNFR":
            p = norm(self.cwd, arg)
            if not self.exists(p):
                return self._refused()
            self.rename_from = p
            return Expect(["350"])
        if v == "RNTO":
            p = norm(self.cwd, arg)
            rf = self.rename_from
            if rf is None:
                return Expect(["503"])
            maybe = isinstance(rf, tuple)
            src = rf[1] if maybe else rf
            if self.exists(p):
                # refused before the rename is attempted: whether the pending RNFR survives is unspecified
                self.rename_from = ("maybe", src)
                e = Expect(classes="5", note="RNTO onto an existing path") if maybe else self._refused()
                model = self

                def gone():
                    model.rename_from = None
                e.branches = {"503": gone}
                return e
            e = Expect(classes="245" if not maybe else "245", note="rename")
            ok_possible = (self.exists(src) and self.is_dir(parent(p)) and not (p + "/").startswith(src + "/")
                           and src != "/")
            model = self

            def applied():
                moved = {}
                for k in list(model.tree):
                    if k == src or k.startswith(src + "/"):
                        moved[p + k[len(src):]] = model.tree.pop(k)
                model.tree.update(moved)
            self.rename_from = None
            if ok_possible:
                e.codes = {"250"} | ({"503"} if maybe else set())
                e.classes = {"2"} | ({"5"} if maybe else set())
                e.branches = {"2": applied}
            else:
                e.codes = None
                e.classes = {"4", "5"}
            return e
        if v == "TYPE":
            return Expect(["200"]) if arg in ("I", "A") else Expect(["502"])
        if v == "PBSZ":
            return Expect(["200"])
        if v == "PROT":
            return Expect(["200"]) if arg == "P" else Expect(["502"])
        if v == "PASV":
            self.passive = True
            return Expect(["227"])
        if v == "EPSV":
            if arg:
                return Expect(classes="5", note="EPSV with argument")
            self.passive = True
            return Expect(["229"])
        if v == "ABOR":
            return Expect(["226"])
        # ---- transfers
        if not self.passive:
            return Expect(["503"], note="no passive listener")
        p = norm(self.cwd, arg)
        rest = self.rest
        alt = None      # (a refused transfer command leaves no offset behind: see step())
        huge = rest >= 2 ** 62 or (alt or 0) >= 2 ** 62
        if v == "RETR":
            if not self.is_file(p):
                self.rest = 0
                return self._refused()
            self.rest = 0
            if data == "never":
                return Expect(["425"], marks=1)
            if huge:
                return Expect(classes="245", marks=1, note="offset beyond what seek() takes")
            e = Expect(["226"], marks=1)
            e.data = self.tree[p][rest:]
            e.data_alt = [self.tree[p][alt:]] if alt else []
            return e
        if v in ("LIST", "MLSD"):
            self.rest = 0
            if not self.exists(p):
                return self._refused()
            if data == "never":
                return Expect(["425"], marks=1)
            e = Expect(classes="2", marks=1)
            e.names = self.children(p) if self.is_dir(p) else []
            e.listing = v
            return e
        if v in ("STOR", "APPE"):
            if not self.is_dir(parent(p)):
                self.rest = 0
                return self._refused()
            self.rest = 0
            if data == "never":
                return Expect(["425"], marks=1)
            if self.is_dir(p):
                return Expect(["451"], marks=1, note="store onto a directory")
            if huge:
                raise NotImplementedError("generator must not combine a huge offset with an upload")
            if rest and not self.is_file(p):
                return Expect(["451"], marks=1, note="restart on a missing file")
            old = self.tree.get(p, b"")
            if alt and not rest:
                # an offset left over from a refused transfer may still be applied (unspecified)
                return self._upload_alternatives(v, p, old, payload, alt)
            if rest and not payload:
                new = old   # seeking beyond the end without writing does not extend the file
            elif rest:
                base = old[:rest] + b"\0" * max(0, rest - len(old))
                new = base + payload + old[rest + len(payload):]
            elif v == "APPE":
                new = old + payload
            else:
                new = payload
            self.tree[p] = new
            return Expect(["226"], marks=1)
        raise AssertionError(v)

    def _upload_alternatives(self, v, p, old, payload, alt):
        plain = (old + payload) if v == "APPE" else payload
        e = Expect(classes="24", marks=1, note="upload with a left-over restart offset")
        if p in self.tree:
            if not payload:
                shifted = old
            else:
                base = old[:alt] + b"\0" * max(0, alt - len(old))
                shifted = base + payload + old[alt + len(payload):]
            e.tree_alt = (p, [plain, shifted])
        else:
            e.tree_alt = (p, [plain, None])   # r+b on a missing file fails (451, nothing created)
        self.tree[p] = plain
        return e

    def observe(self, expect, code):
        """Follow the branch the implementation took."""
        if expect.branches:
            for prefix, fn in expect.branches.items():
                if code.startswith(prefix):
                    fn()
