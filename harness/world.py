"""Case scaffolding shared by the checks: a server with a spy back end on the
simulated network, hygiene capture, tree snapshots, temp-dir handling."""

import asyncio
import os
import pathlib
import shutil
import tempfile
import signal
import threading
import traceback

from . import boot  # noqa: F401
from . import hygiene, simnet, spyfs
import aioftp

BACKENDS = {"memory": aioftp.MemoryPathIO, "pathio": aioftp.PathIO, "async": aioftp.AsyncPathIO}
VERBOSE = bool(os.environ.get("VERIF_VERBOSE"))


class World:
    """One aioftp.Server on simnet with a spying back end."""

    def __init__(self, net, *, backend="memory", users=None, tree=None, port=2121, host="127.0.0.1",
                 base=None, raw=False, **server_kwargs):
        self.net = net
        self.backend = backend
        self.ctl = spyfs.SpyControl()
        self.tmpdir = None
        if backend == "memory":
            self.base = pathlib.Path(base if base is not None else "/")
        else:
            self.tmpdir = tempfile.mkdtemp(prefix="aioftp-verif-")
            self.base = pathlib.Path(self.tmpdir)
        if users is None:
            users = [aioftp.User(base_path=self.base)]
        elif callable(users):
            users = users(self.base)
        self.users = users
        self.socket_timeout = server_kwargs.get("socket_timeout")
        self.host, self.port = host, port
        # raw: the back end class itself, no spy around it (the spy translates exceptions on its own, which would hide what the
        # real back end's own decorators let through; faults are then injected beneath it, see SimLoop.exec_hook)
        self.factory = BACKENDS[backend] if raw else spyfs.make_spy(BACKENDS[backend], self.ctl)
        self.server = aioftp.Server(users, path_io_factory=self.factory, **server_kwargs)
        self._tree0 = tree
        self.close_hung = False
        self.close_error = None

    async def start(self):
        if self.tmpdir:
            # every file object the file-system back ends open below this world's directory, whoever (if anybody) gets to see it:
            # an executor thread goes on opening a file after the call that asked for it was cancelled, and the spy, which
            # records a handle when `_open` returns, never learns of that one
            self.raw_files = []
            world = self
            self._orig_path_open = orig = pathlib.Path.open

            def recording_open(path_self, *a, **kw):
                f = orig(path_self, *a, **kw)
                try:
                    if str(path_self).startswith(world.tmpdir):
                        world.raw_files.append((str(path_self)[len(world.tmpdir):] or "/", f))
                except Exception:
                    pass
                return f
            pathlib.Path.open = recording_open
        await self.server.start(self.host, self.port)
        if self._tree0:
            self.populate(self._tree0)
        return self

    def populate(self, spec, now=None):
        if self.backend == "memory":
            nursery = self.server.path_io_factory
            if nursery.state is None:
                nursery(timeout=None, connection=None)  # creates the shared state
                self.ctl.instances.clear()
            # place nodes below self.base
            prefix = str(self.base).rstrip("/")
            spyfs.memory_populate(nursery.state, {prefix + p: v for p, v in spec.items()}, now=now)
        else:
            spyfs.fs_populate(self.base, spec)

    def tree(self, with_mtime=False):
        if self.backend == "memory":
            state = self.server.path_io_factory.state
            if state is None:
                return {}
            full = spyfs.memory_tree(state, with_mtime)
            prefix = str(self.base).rstrip("/")
            if not prefix:
                return full
            return {p[len(prefix):]: v for p, v in full.items() if p.startswith(prefix + "/")}
        return spyfs.fs_tree(self.base, with_mtime)

    async def stop(self, timeout=10.0):
        """Server.close() bounded in virtual time, so that a close() that hangs in the
        code under test cannot mask what the case has already observed."""
        t = asyncio.ensure_future(self.server.close())
        await asyncio.wait([t], timeout=timeout)
        if not t.done():
            t.cancel()
            self.close_hung = True
            return False
        if t.exception() is not None:
            self.close_error = repr(t.exception())
            return False
        return True

    def cleanup(self):
        if getattr(self, "_orig_path_open", None) is not None:
            pathlib.Path.open = self._orig_path_open
            self._orig_path_open = None
            for _, f in getattr(self, "raw_files", []):
                try:
                    f.close()
                except Exception:
                    pass
        if self.tmpdir:
            shutil.rmtree(self.tmpdir, ignore_errors=True)

    # -- ledger judgement (C12 and friends) ------------------------------------
    def leaks(self, expect_server_closed=False):
        """Server-side resources still held.  To be called at quiescence."""
        out = []
        for t in self.net.transports:
            if (t.side == "accept" and t.state == simnet.CLOSING and t.conn.client.state == simnet.OPEN
                    and t.out.sendbuf and t.conn.client.held_bytes):
                # close() was called; unsent bytes wait for a peer that is alive but does not read.  Without a configured
                # socket_timeout nothing bounds that (TCP's business).  With one, the peer must not hold the socket longer
                # than a write may take (C16: "cannot hold server resources beyond the configured bounds").
                st = self.socket_timeout
                age = self.net.loop.time() - (t.close_called_at if t.close_called_at is not None else self.net.loop.time())
                if expect_server_closed:
                    # Server.close() has returned: "leaves no task, socket or listener of the server behind"
                    out.append(f"lingering-transport c{t.conn.id} (port {t.conn.port}): still open after Server.close() returned; the "
                               f"peer does not read and holds the server's socket with {len(t.out.sendbuf)} unsent bytes")
                    continue
                if st is None or age <= st + 0.01:
                    continue
                out.append(f"lingering-transport c{t.conn.id} (port {t.conn.port}): close() was called {age:.2f}s ago, socket_timeout is "
                           f"{st}, the peer does not read and still holds the server's socket with {len(t.out.sendbuf)} unsent bytes")
                continue
            if t.side == "accept" and t.state != simnet.CLOSED:
                out.append(f"server-side transport c{t.conn.id} (port {t.conn.port}) still {t.state}")
            elif t.side == "accept" and t.closed_by_gc:
                out.append(f"server-side transport c{t.conn.id} (port {t.conn.port}) closed only by garbage collection")
        for s in self.net.servers:
            if not s.closed and (s.port != self.port or expect_server_closed):
                out.append(f"listener on port {s.port} still open")
        if self.ctl.open_handles:
            out.append(f"back-end file handles still open: {self.ctl.open_handles[:3]}")
        still = [p_ for p_, f in getattr(self, "raw_files", []) if not f.closed]
        if still and not self.ctl.open_handles:
            out.append(f"back-end file opened and never closed (nobody holds it: opened by a thread after its caller had been "
                       f"cancelled or had given up): {still[:3]}")
        conns = getattr(self.server, "connections", {})
        if conns:
            out.append(f"Server.connections still has {len(conns)} entries")
        return out


class LoopBlocked(KeyboardInterrupt):
    """raised from the SIGALRM handler into whatever frame blocks the event-loop thread (a KeyboardInterrupt subclass so that
    neither a Task step nor a loop handle swallows it)"""


BLOCK_INTERVAL_S = 30
POISONED = False


def run(main_factory, *, seed=0, net_kwargs=None, max_iterations=3_000_000, block_detector=True):
    """Run one simulated case under the hygiene monitors.

    ``main_factory(net, hyg)`` is a coroutine function returning the case's own
    result dict.  Returns (result|None, info) where info has hygiene, loop stats and
    an ``error`` entry when the simulation itself failed (deadlock, harness bug)."""
    info = {}
    with hygiene.Hygiene() as hyg:
        holder = {}

        async def main(net):
            hyg.install_loop(net.loop)
            holder["net"] = net
            return await main_factory(net, hyg)

        # the event-loop thread blocked in a synchronous call (lock, sleep, endless loop) of the code under test: wall clock
        # only triggers the look; the verdict is logical - not one loop iteration between two alarms BLOCK_INTERVAL_S apart
        seen = {"it": None}

        def on_alarm(signum, frame):
            net_ = holder.get("net")
            it = getattr(getattr(net_, "loop", None), "iterations", None)
            if it is not None and it == seen["it"]:
                info["blocked"] = "".join(traceback.format_stack(frame)[-10:])
                raise LoopBlocked()
            seen["it"] = it
        old_handler = None
        if block_detector and threading.current_thread() is threading.main_thread():
            old_handler = signal.signal(signal.SIGALRM, on_alarm)
            signal.setitimer(signal.ITIMER_REAL, BLOCK_INTERVAL_S, BLOCK_INTERVAL_S)
        try:
            result, net, stats = simnet.run_sim(main, seed=seed, net_kwargs=net_kwargs,
                                                max_iterations=max_iterations)
            info["stats"] = stats
        except LoopBlocked:
            global POISONED
            POISONED = True     # whatever blocked the thread (a lock held by an abandoned coroutine) stays: this process is done
            result = None
            info.setdefault("blocked", "?")
        except simnet.SimDeadlock as e:
            result = None
            info["deadlock"] = str(e)
        except Exception as e:
            result = None
            info["error"] = repr(e)
            info["trace"] = traceback.format_exc()[-3000:]
        finally:
            if old_handler is not None:
                signal.setitimer(signal.ITIMER_REAL, 0)
                signal.signal(signal.SIGALRM, old_handler)
        info["net"] = holder.get("net")
    info["hygiene"] = hyg
    return result, info


class _Zero(dict):
    def __missing__(self, key):
        return 0


def failed(info, context=""):
    """Result for a case whose simulation did not complete.  A deadlock (nothing runnable,
    no timer, main not done) means some await on the code under test never returned: every
    wait of the harness itself is bounded, so this is reported as a hang of the code under
    test.  Any other exception is a failure of the machinery: inconclusive."""
    if info.get("blocked"):
        return {"violations": [{"key": "event-loop-blocked",
                                "msg": f"a synchronous call of the code under test kept the event-loop thread for more than "
                                       f"{BLOCK_INTERVAL_S} s (not one loop iteration between two alarms): every session of the server "
                                       f"hangs {context}; stack of the blocked thread:\n{info['blocked']}"}],
                "monitors": _Zero(), "sig": "blocked", "nontrivial": False, "nevents": 0, "ncalls": 0, "site": "blocked", "by": None,
                "codes": None, "seq": None, "phase": "blocked", "pool": None, "cut_done": False, "hang": True, "_poisoned": True}
    if info.get("deadlock"):
        return {"violations": [{"key": "hang", "msg": f"the case never completed: {info['deadlock']} {context}"}],
                "monitors": _Zero(), "sig": "hang", "nontrivial": False, "nevents": 0, "ncalls": 0, "site": "hang", "by": None,
                "codes": None, "seq": None, "phase": "hang", "pool": None, "cut_done": False, "hang": True}
    return {"inconclusive": info.get("error") or "unknown failure", "trace": info.get("trace", "")}
