"""Regenerates /verif/MANIFEST.json from the table below (developer tool; run
``/venv/bin/python -m harness.manifest_gen`` in /verif).  A property is claimed only
if its check module exists."""

import json
import os

ROOT = os.path.dirname(os.path.dirname(os.path.abspath(__file__)))

T = {
    "C01": ("exploration", "4/C01", "byte-model oracle over recorded client writes / reads and spy-backend content, simulated network",
            "Runs real client<->server transfers on the virtual-time network over payload x offset x block size x chunking x "
            "segmentation x backend and compares with a byte model; a second session re-reads after the completion reply.",
            "simnet fidelity; pairwise sample of the dimension product, not the full product"),
    "C02": ("exploration", "4/C02", "bounded-exhaustive get_paths contract against an independent normaliser + recording backend at wire level",
            "Exhaustive for the stated segment alphabet/length bound at function level; wire level samples CWD/CDUP histories "
            "and checks every path handed to the recording backend.",
            "lexical confinement only (symlinks out of scope); Windows flavour only through PureWindowsPath"),
    "C03": ("exploration", "4/C03", "raw-peer command histories vs authentication model; spy backend must stay untouched",
            "All histories up to a length bound over a reduced alphabet plus random long ones; zero backend calls and no "
            "listener before login are observed directly.",
            "MemoryUserManager only"),
    "C04": ("exploration", "4/C04", "longest-prefix oracle + alias/control differential at wire level",
            "Random permission tables, every checked verb, aliases of each target, compared with an independent "
            "nearest-ancestor oracle and an all-permissive control run.",
            "MemoryPathIO backend"),
    "C05": ("exploration", "4/C05", "online conformance monitor: sequential reference model over raw-peer transcripts",
            "Model-guided random and bounded-exhaustive command sequences; every reply is checked against the set of outcomes "
            "the sequential model allows, with silence checks for duplicate/unsolicited replies.",
            "reference model harness/ftpmodel.py is the specification where RFC 959 and the docs are silent"),
    "C06": ("exploration", "4/C06", "encode/decode round trip through real write_response and parse_response over every segmentation",
            "Synthetic replies through the real encoder and decoder on a real StreamReader in all 2-cut segmentations; "
            "Code.matches table is exhaustive.",
            "none beyond asyncio.StreamReader"),
    "C07": ("exploration", "4/C07", "formatter->parser composition on an (mtime, now) grid + listing multiset vs spy tree",
            "Grid around every structural date boundary in three time zones plus end-to-end listings compared with the "
            "backend's own tree.",
            "only C/POSIX locales exist in the sandbox"),
    "C08": ("exploration", "4/C08", "metacharacter-biased name generator through every client method vs spy tree",
            "Each generated name goes through MKD/CWD/PWD/upload/list/stat/download/rename/delete and the backend tree is "
            "compared after each step.",
            "names the line protocol cannot carry are excluded as the statement says"),
    "C09": ("exploration", "4/C09", "specification function for placement vs spy tree after real upload/download/list/remove",
            "All small tree shapes plus random trees, destinations, write_into, cwd; complete expected tree compared.",
            "local side on a temp dir with PathIO"),
    "C10": ("fault_enumeration", "4/C10", "shadow slot accounting from raw-peer transcripts vs counters at quiescence, cut enumeration",
            "Seeded multi-session schedules with cuts at enumerated events; counters compared with a shadow account and "
            "black-box re-admission.",
            "counter values read from AvailableConnections.value (read-only); black-box re-admission does not depend on it"),
    "C11": ("fault_enumeration", "4/C11", "conservation invariant on the port pool at every network event and at quiescence, bind-fault and cut enumeration",
            "Every network event position of the scripts is cut (FIN and RST), plus cuts at each loop iteration of listener "
            "start-up, plus seeded multi-session schedules with injected bind failures; pool (+) bound ports == configured.",
            "in-memory network model; pool read through the private _queue (black-box re-open check is independent of it)"),
    "C12": ("fault_enumeration", "4/C12", "resource ledger at quiescence after a cut at every network event of every corpus script",
            "Cut (peer RST/FIN, server.close()) after each network event k of each script; at quiescence the ledger of "
            "transports, listeners, backend handles, tasks and Server.connections must be empty.",
            "in-memory network; quiescence = 5 virtual seconds without input"),
    "C13": ("fault_enumeration", "4/C13", "k-th backend call fails, for every k of every corpus script; transcript/EOF/probe oracle",
            "Enumerates every backend call position of each script with OSError and non-OSError failures.",
            "faults injected through a spying subclass of the shipped backends inside universal_exception"),
    "C14": ("fault_enumeration", "4/C14", "ABOR injected at every network event of a transfer; reply-sequence + prefix + follow-up oracle",
            "Abort position enumerated over all network events of each transfer kind and size.",
            "in-memory network"),
    "C15": ("exploration", "4/C15", "cumulative-rate inequality and no-extra-delay equality on recorded I/O start/end times in virtual time",
            "Random I/O traces at the throttle API plus end-to-end transfers at all five limit levels in virtual time.",
            "virtual clock; I/O durations scripted at API level"),
    "C16": ("fault_enumeration", "4/C16", "stall at every network event; release time compared with armed-timer model in virtual time",
            "Every stall position of each script under all timeout combinations; exact virtual-time bounds.",
            "in-memory network; virtual time"),
    "C17": ("exploration", "4/C17", "interleaved vs solo transcript equality (non-interference) under seeded schedules",
            "Pairs/triples of corpus scripts on disjoint prefixes under seeded latency skews and backend delays.",
            "clock shims make time-dependent facts deterministic"),
    "C18": ("exploration", "4/C18", "three-way differential replay step by step (reply class, bytes, tree)",
            "Random command sequences replayed on the three backends with tree comparison after each step.",
            "file-system backends on a temp dir"),
    "C19": ("exploration", "4/C19", "grammar-aware mutational inputs; exception-type and termination monitors, bystander non-interference",
            "Mutated control lines against the server with a benign bystander; mutated replies/listings against the client "
            "with a step budget as hang detector.",
            "finite scripts from the hostile peer"),
    "C20": ("exploration", "4/C20", "log capture: substring search + non-interference between runs differing only in the password",
            "All records of all loggers at DEBUG for generated passwords and login sequences; two-run equality for short passwords.",
            "loggers reachable from the root logger"),
}


def main():
    props = [json.loads(line) for line in open(os.path.join(ROOT, "properties.jsonl"))]
    checks, na = [], []
    for p in props:
        pid = p["id"]
        mod = os.path.join(ROOT, "harness", "checks", pid.lower() + ".py")
        if not os.path.exists(mod):
            na.append({"property_id": pid, "reason": "check not built yet (work in progress; DESIGN.md section 4 has the plan)"})
            continue
        level, ref, tech, text, note = T[pid]
        checks.append({
            "property_id": pid,
            "quick_cmd": f"bin/check {pid} --tier quick",
            "thorough_cmd": f"bin/check {pid} --tier thorough",
            "evidence_file": f"evidence/{pid}.json",
            "replay_cmd_template": f"bin/check {pid} --replay {{path}}",
            "engine": "runtime-monitoring harness",
            "level_claimed": {"category": level, "text": text + " Verdict is 'held on the executions listed in evidence', not a proof.",
                              "design_ref": "DESIGN.md " + ref},
            "level_note": note,
            "technique": tech,
        })
    m = {
        "version": 1,
        "setup_cmd": "bin/setup",
        "hooks": {
            "guard": "AIOFTP_VERIF",
            "enable": "no source hooks exist: observation is by sub-classing the shipped back ends, wrapping instance/module "
                      "attributes from the harness and the simulated network; the guard name is reserved",
            "baseline_off_cmd": "cd /repo && env -u AIOFTP_VERIF /venv/bin/python -m pytest -ra -q -p no:cacheprovider "
                                "--timeout=900 --continue-on-collection-errors",
            "source_commits": [],
            "add_only": True,
        },
        "engines": [{
            "name": "runtime-monitoring harness",
            "path": "harness/",
            "serves_properties": [c["property_id"] for c in checks],
            "kind_free_text": "real aioftp code on a virtual-time event loop with an in-memory network (harness/simnet.py), "
                              "a non-aioftp raw FTP peer, recording/failing storage back ends and deterministic oracles over the "
                              "recorded events; sharded over sub-processes by harness/runner.py",
        }],
        "checks": checks,
        "not_applicable": na,
        "notes": "Fix commits made in /repo are listed in known_findings.json (status fixed). Exit codes: 0 held, "
                 "1 violation (VIOLATION line), 2 inconclusive (monitor never reached / watchdog; no VIOLATION line).",
    }
    with open(os.path.join(ROOT, "MANIFEST.json"), "w") as f:
        json.dump(m, f, indent=1)
    print(f"claimed {len(checks)}, not applicable {len(na)}")


if __name__ == "__main__":
    main()
