"""Recording / delaying / failing storage back ends (DESIGN.md 2.3).

``make_spy(base, ctl)`` returns a subclass of one of aioftp's shipped back ends
whose every operation first reports to the controller ``ctl`` (record, optional
``await asyncio.sleep`` and optional injected failure) *inside* aioftp's own
``universal_exception`` wrapper, so an injected error reaches the server exactly as
a real back-end error would.
"""

import asyncio
import errno
import functools
import io
import os
import pathlib

from . import boot  # noqa: F401
from aioftp import pathio as _pathio
from aioftp import errors as _errors
from aioftp.common import AbstractAsyncLister

OPS = ("exists", "is_dir", "is_file", "mkdir", "rmdir", "unlink", "list", "stat",
       "open", "seek", "write", "read", "close", "rename")


class Fault(Exception):
    """Non-OSError failure class for injected faults."""


class Bare(Exception):
    """marker: becomes a bare aioftp.PathIOError() (reason None) on its way out of the spy back end"""


class SpyControl:
    def __init__(self, loop=None):
        self.calls = []          # (n, session, op, path-str, t)
        self.n = 0
        self.delay = None        # callable(op, path, n) -> seconds | None
        self.gate = None         # async callable(spy, op, path, n) awaited before the call goes on (or fails)
        self.fail = None         # callable(op, path, n, session) -> exception | None
        self.open_handles = []   # [id(file), path, mode, session]
        self.instances = []
        self.fired = []          # (n, op, path)
        self.closed_handles = 0
        self.opened_handles = 0
        self.delay_after = None  # callable(op, path, n) -> seconds slept *after* the operation took effect (write only)
        self.read_cap = None     # callable(requested) -> bytes to really read (short reads before end of file)
        self.on_call = None      # callable(spy, op, path) for checks that tag calls themselves

    def session_of(self, spy):
        c = spy.connection
        if c is None:
            return None
        try:
            return c["client_port"].result()
        except Exception:
            return None

    async def before(self, spy, op, path):
        self.n += 1
        n = self.n
        sess = self.session_of(spy)
        t = asyncio.get_running_loop().time()
        self.calls.append((n, sess, op, None if path is None else str(path), round(t, 6)))
        if self.on_call is not None:
            self.on_call(spy, op, path)
        if self.delay is not None:
            d = self.delay(op, path, n)
            if d:
                await asyncio.sleep(d)
        if self.gate is not None:
            await self.gate(spy, op, path, n)    # holds the call until the harness lets it go (alignment with another event)
        if self.fail is not None:
            exc = self.fail(op, path, n, sess)
            if exc is not None:
                self.fired.append((n, op, None if path is None else str(path)))
                raise exc

    def fail_nth(self, k, exc_factory=None):
        """Make the k-th back-end call (1-based, counted from now) fail."""
        base = self.n
        mk = exc_factory or (lambda: OSError(errno.EIO, "injected"))

        def f(op, path, n, sess):
            if n - base == k:
                return mk()
        self.fail = f

    def fail_op(self, opname, exc_factory=None, session=None):
        mk = exc_factory or (lambda: OSError(errno.EIO, "injected"))

        def f(op, path, n, sess):
            if op == opname and (session is None or sess == session):
                return mk()
        self.fail = f


def make_spy(base, ctl):
    _ue = _pathio.universal_exception

    def ue(f):
        """the library's own wrapper; an injected `Bare` fault leaves it as a PathIOError *without* a reason, the way a custom
        back end that raises aioftp.PathIOError itself would"""
        wrapped = _ue(f)

        @functools.wraps(f)
        async def outer(*a, **kw):
            try:
                return await wrapped(*a, **kw)
            except _errors.PathIOError as e:
                r = getattr(e, "reason", None)
                if r and len(r) > 1 and isinstance(r[1], Bare):
                    raise _errors.PathIOError() from None
                if r and len(r) > 1 and isinstance(r[1], _errors.PathIOError):
                    # the wrapped back end already reported its failure: hand that report on as it is (wrapping it a second
                    # time would hide the original exception, e.g. its errno, from the server)
                    raise r[1]      # (as it is: its __cause__ - the back end's own exception - stays in place)
                raise
        return outer

    class Spy(base):
        _ctl = ctl

        def __init__(self, *a, **kw):
            if getattr(ctl, "fail_init", None) and kw.get("connection") is not None:
                exc = ctl.fail_init(len(ctl.instances))
                if exc is not None:
                    raise exc      # a back end that cannot be set up for this session (its constructor raises)
            super().__init__(*a, **kw)
            ctl.instances.append(self)

        @ue
        async def exists(self, path):
            await ctl.before(self, "exists", path)
            return await base.exists(self, path)

        @ue
        async def is_dir(self, path):
            await ctl.before(self, "is_dir", path)
            return await base.is_dir(self, path)

        @ue
        async def is_file(self, path):
            await ctl.before(self, "is_file", path)
            return await base.is_file(self, path)

        @ue
        async def mkdir(self, path, *, parents=False, exist_ok=False):
            await ctl.before(self, "mkdir", path)
            return await base.mkdir(self, path, parents=parents, exist_ok=exist_ok)

        @ue
        async def rmdir(self, path):
            await ctl.before(self, "rmdir", path)
            return await base.rmdir(self, path)

        @ue
        async def unlink(self, path):
            await ctl.before(self, "unlink", path)
            return await base.unlink(self, path)

        def list(self, path):
            inner = base.list(self, path)
            spy = self

            class Lister(AbstractAsyncLister):
                @ue
                async def __anext__(self_):
                    await ctl.before(spy, "list", path)
                    return await inner.__anext__()

            return Lister(timeout=self.timeout)

        @ue
        async def stat(self, path):
            await ctl.before(self, "stat", path)
            return await base.stat(self, path)

        @ue
        async def _open(self, path, *args, **kwargs):
            await ctl.before(self, "open", path)
            f = await base._open(self, path, *args, **kwargs)
            mode = kwargs.get("mode", args[0] if args else "rb")
            ctl.open_handles.append([id(f), str(path), mode, ctl.session_of(self)])
            ctl.opened_handles += 1
            return f

        @ue
        async def seek(self, file, *args, **kwargs):
            await ctl.before(self, "seek", None)
            return await base.seek(self, file, *args, **kwargs)

        @ue
        async def write(self, file, *args, **kwargs):
            await ctl.before(self, "write", None)
            r = await base.write(self, file, *args, **kwargs)
            if ctl.delay_after is not None:
                # the bytes are in the file, the acknowledgement comes late (a back end that waits for a sync / a remote ack)
                d = ctl.delay_after("write", None, ctl.n)
                if d:
                    await asyncio.sleep(d)
            return r

        @ue
        async def read(self, file, *args, **kwargs):
            await ctl.before(self, "read", None)
            if ctl.read_cap is not None and args and isinstance(args[0], int) and args[0] > 0:
                # a back end is free to return fewer bytes than asked for ("read some data"): ask for fewer
                args = (max(1, min(args[0], ctl.read_cap(args[0]))),) + tuple(args[1:])
            return await base.read(self, file, *args, **kwargs)

        @ue
        async def close(self, file):
            # the handle counts as open until close() has returned (or failed: then it is given up as well)
            try:
                try:
                    await ctl.before(self, "close", None)
                except BaseException:
                    # an injected failure of close(): a close() that reports an error has let go of the file all the same
                    if not isinstance(file, io.BytesIO):
                        try:
                            file.close()
                        except Exception:
                            pass
                    raise
                return await base.close(self, file)
            finally:
                for i, h in enumerate(ctl.open_handles):
                    if h[0] == id(file):
                        ctl.open_handles.pop(i)
                        ctl.closed_handles += 1
                        break

        @ue
        async def rename(self, source, destination):
            await ctl.before(self, "rename", source)
            ctl.calls.append((ctl.n, ctl.session_of(self), "rename_to", str(destination), None))
            if ctl.on_call is not None:
                ctl.on_call(self, "rename_to", destination)
            return await base.rename(self, source, destination)

    Spy.__name__ = "Spy" + base.__name__
    return Spy


# --- canonical tree snapshots, independent of the back end's list/stat ----------

DIR = "<DIR>"


def memory_tree(fs, with_mtime=False):
    """{path: DIR | bytes} from MemoryPathIO state (its node list)."""
    out = {}

    def walk(nodes, prefix):
        for node in nodes:
            p = prefix + "/" + node.name if prefix != "/" else "/" + node.name
            if node.type == "dir":
                out[p] = (DIR, node.mtime) if with_mtime else DIR
                walk(node.content, p)
            else:
                b = bytes(node.content.getbuffer())
                out[p] = (b, node.mtime) if with_mtime else b

    root = fs[0]
    walk(root.content, "/")
    return out


def fs_tree(base, with_mtime=False):
    """{virtual path: DIR | bytes} from a real directory."""
    out = {}
    base = str(base)
    for dirpath, dirnames, filenames in os.walk(base):
        rel = os.path.relpath(dirpath, base)
        prefix = "" if rel == "." else "/" + rel.replace(os.sep, "/")
        for d in dirnames:
            full = os.path.join(dirpath, d)
            out[prefix + "/" + d] = (DIR, int(os.stat(full).st_mtime)) if with_mtime else DIR
        for f in filenames:
            full = os.path.join(dirpath, f)
            with open(full, "rb") as fh:
                b = fh.read()
            out[prefix + "/" + f] = (b, int(os.stat(full).st_mtime)) if with_mtime else b
    return out


def tree_json(tree):
    return {k: (v if v == DIR else f"{len(v)}B:{v[:24].hex()}") for k, v in sorted(tree.items())}


def memory_populate(fs, spec, now=None, reverse=False):
    """Build nodes from {path: DIR|bytes} into a MemoryPathIO state list (reverse: siblings in descending order of their names,
    which is the order a listing of MemoryPathIO yields them in)."""
    Node = _pathio.Node
    root = fs[0]
    for p in sorted(spec, reverse=reverse):
        parts = [x for x in p.split("/") if x]
        nodes = root.content
        for i, part in enumerate(parts):
            last = i == len(parts) - 1
            for n in nodes:
                if n.name == part:
                    node = n
                    break
            else:
                if last and spec[p] != DIR:
                    node = Node("file", part, content=io.BytesIO(spec[p]))
                    node.content.seek(0, io.SEEK_END)
                else:
                    node = Node("dir", part, content=[])
                if now is not None:
                    node.mtime = node.ctime = now
                nodes.append(node)
            nodes = node.content


def fs_populate(base, spec):
    base = pathlib.Path(base)
    for p in sorted(spec):
        full = base / p.lstrip("/")
        if spec[p] == DIR:
            full.mkdir(parents=True, exist_ok=True)
        else:
            full.parent.mkdir(parents=True, exist_ok=True)
            full.write_bytes(spec[p])
