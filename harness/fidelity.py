"""Fidelity guard: the deterministic script corpus gives the same control transcripts, transferred bytes and final
tree over real loopback TCP on the stock event loop as on the simulated network (ports normalised, clocks pinned).
Run by bin/setup; a mismatch means the simulator misrepresents the code and no simnet-based verdict is to be trusted."""

import asyncio
import sys

from . import boot  # noqa: F401
from . import spyfs, world as W
from .corpus import Session, corpus, corpus_tree, corpus_users
from .checks.c17 import pin_clocks
import aioftp

SCRIPTS = ["login_quit", "login_pw", "login_bad_pw", "walk", "mkd_rmd", "stor_pasv", "stor_epsv_after", "appe", "retr_pasv", "retr_epsv_after",
           "retr_rest", "stor_rest", "retr_missing", "list", "mlsd", "mlsd_dir", "mlst", "rename", "dele", "abor_idle", "misc", "two_transfers",
           "pasv_twice", "noconnect", "nologin", "stor_unreachable", "relogin", "stor_slow", "pipelined", "pipelined_fs", "stor_rest_missing"]
# not included: abor_mid, retr_huge - their outcome depends on how much the network buffers (400 kB fit into the
# kernel's loopback buffers but not into the simulated 64 KiB window)


class RealNet:
    """what RawPeer / Session need from a network object, on the stock loop"""

    def __init__(self, loop):
        self.loop = loop
        self.events = []
        self.latency = 0.002

    async def settle(self):
        await asyncio.sleep(0.03)


async def on_real(name):
    loop = asyncio.get_running_loop()
    ctl = spyfs.SpyControl()
    factory = spyfs.make_spy(aioftp.MemoryPathIO, ctl)
    server = aioftp.Server(corpus_users("/"), path_io_factory=factory)
    await server.start("127.0.0.1", 0)
    nursery = server.path_io_factory
    nursery(timeout=None, connection=None)
    spyfs.memory_populate(nursery.state, corpus_tree([""]))
    net = RealNet(loop)
    s = Session(net, server.server_port)
    await asyncio.wait_for(s.run(corpus("")[name]), 30)
    s.peer.cut("fin")
    await asyncio.sleep(0.05)
    tree = spyfs.memory_tree(nursery.state)
    await asyncio.wait_for(server.close(), 5)
    return s.peer.normalized(), [[v, a, bytes(b).hex(), st] for v, a, b, st in s.downloads], spyfs.tree_json(tree)


def on_sim(name):
    async def main(net, hyg):
        w = W.World(net, tree=corpus_tree([""]), users=corpus_users)
        await w.start()
        s = Session(net, 2121)
        await s.run(corpus("")[name])
        s.peer.cut("fin")
        await net.quiesce(0.5)
        tree = w.tree()
        await w.stop()
        return s.peer.normalized(), [[v, a, bytes(b).hex(), st] for v, a, b, st in s.downloads], spyfs.tree_json(tree)
    res, info = W.run(main, seed=1)
    if res is None:
        raise RuntimeError(f"simulated run of {name} failed: {info.get('deadlock') or info.get('error')}")
    return res


async def spy_transparency():
    """a failure of the wrapped back end reaches the caller of the spy exactly as it reaches the caller of the back end
    itself: same exception type, same wrapped reason (type, errno)"""
    import pathlib
    import shutil
    import tempfile

    def shape(e):
        r = getattr(e, "reason", None)
        inner = r[1] if r else None
        return (type(e).__name__, type(inner).__name__, getattr(inner, "errno", None))
    bad = []
    for base in (aioftp.MemoryPathIO, aioftp.PathIO, aioftp.AsyncPathIO):
        root = tempfile.mkdtemp(prefix="aioftp-verif-fid-")
        try:
            seen = {}
            for spied in (False, True):
                factory = spyfs.make_spy(base, spyfs.SpyControl()) if spied else base
                pio = factory(timeout=None)
                top = pathlib.PurePosixPath("/t") if base is aioftp.MemoryPathIO else pathlib.Path(root) / ("s" if spied else "p")
                await pio.mkdir(top)
                await pio.mkdir(top / "full")
                await pio.mkdir(top / "full" / "inner")
                got = []
                for op, arg in (("rmdir", top / "full"), ("rmdir", top / "nope"), ("mkdir", top / "full"), ("unlink", top / "nope"),
                                ("unlink", top / "full"), ("stat", top / "nope"), ("mkdir", top / "a" / "b")):
                    try:
                        await getattr(pio, op)(arg)
                        got.append((op, "ok"))
                    except Exception as e:
                        got.append((op, shape(e)))
                seen[spied] = got
            if seen[False] != seen[True]:
                bad.append((base.__name__, seen[False], seen[True]))
        finally:
            shutil.rmtree(root, ignore_errors=True)
    for name, a, b in bad:
        print(f"FIDELITY MISMATCH spy over {name} changes what a failure looks like:\n  plain: {a}\n  spied: {b}")
    print(f"fidelity guard: spy transparent for failures of {3 - len(bad)}/3 back ends")
    return len(bad)


def main(names=None):
    pin_clocks()
    bad = 0
    if not names:
        bad += asyncio.run(spy_transparency())
    names = names or SCRIPTS
    for name in names:
        sim = on_sim(name)
        real = asyncio.run(on_real(name))
        if sim != real:
            bad += 1
            for k, (a, b) in enumerate(zip(sim, real)):
                if a != b:
                    what = ["transcript", "downloads", "tree"][k]
                    print(f"FIDELITY MISMATCH script={name} in {what}:\n  simnet: {str(a)[:600]}\n  real:   {str(b)[:600]}")
    print(f"fidelity guard: {len(names) - bad}/{len(names)} scripts identical on simnet and on real loopback")
    return 1 if bad else 0


if __name__ == "__main__":
    sys.exit(main(sys.argv[1:] or None))
