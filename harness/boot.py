"""Import aioftp from the tree under test.

``VERIF_REPO`` (default ``/repo``) selects the tree; its ``src`` directory is put
at ``sys.path[0]`` so that it wins over the editable install of /venv, and the
location aioftp was really imported from is asserted and recorded in evidence.
"""

import os
import sys

VERIF_ROOT = os.path.dirname(os.path.dirname(os.path.abspath(__file__)))
REPO = os.path.abspath(os.environ.get("VERIF_REPO", "/repo"))
SRC = os.path.join(REPO, "src")

if SRC in sys.path:
    sys.path.remove(SRC)
sys.path.insert(0, SRC)
if VERIF_ROOT not in sys.path:
    sys.path.insert(1, VERIF_ROOT)

import aioftp  # noqa: E402

AIOFTP_FILE = os.path.abspath(aioftp.__file__)
if not AIOFTP_FILE.startswith(SRC + os.sep):
    raise SystemExit(f"INCONCLUSIVE: aioftp imported from {AIOFTP_FILE}, expected under {SRC}")
