"""Virtual-time event loop with an in-memory network (DESIGN.md 2.1).

The asyncio stream classes stay the real ones: only ``loop.create_server`` and
``loop.create_connection`` are replaced, so ``asyncio.start_server`` /
``asyncio.open_connection`` used inside aioftp transparently get in-memory
endpoints.  Time is virtual: when nothing is runnable the clock jumps to the next
timer.  Segmentation, latency, flow control, FIN/RST, bind failures and the
suspension points of listener start-up are inputs of a case.
"""

import asyncio
import concurrent.futures
import collections
import errno
import random
import selectors
import socket
import time
import sys

MSS_CHOICES = (1, 2, 3, 7, 64, 536, 1460, 8192, 65536)


class SimDeadlock(RuntimeError):
    """Nothing runnable, nothing scheduled, main future not done."""


class _VSelector:
    """Selector wrapper: polls the real selector, advances virtual time."""

    def __init__(self, loop, real):
        self._loop = loop
        self._real = real

    def __getattr__(self, name):
        return getattr(self._real, name)

    def select(self, timeout=None):
        loop = self._loop
        loop.iterations += 1
        # CPU seconds (of this thread: load on the machine does not count) that the callbacks of one loop iteration took
        t = time.thread_time()
        if loop._iter_cpu_mark is not None and t - loop._iter_cpu_mark > loop.worst_iteration_cpu:
            loop.worst_iteration_cpu = t - loop._iter_cpu_mark
        try:
            return self._select(timeout)
        finally:
            loop._iter_cpu_mark = time.thread_time()

    def _select(self, timeout=None):
        loop = self._loop
        if loop.iterations > loop.max_iterations:
            raise SimDeadlock(f"iteration budget {loop.max_iterations} exhausted (livelock?)")
        events = self._real.select(0)
        if events or (timeout is not None and timeout <= 0):
            return events
        if loop._exec_outstanding > 0:
            # executor threads are working in real time: wait for their wake-up
            # without touching the virtual clock
            return self._real.select(0.02 if timeout is None else min(timeout, 0.02))
        if timeout is None:
            raise SimDeadlock("no runnable callback and no timer")
        loop._vnow += timeout
        return events


class SimLoop(asyncio.SelectorEventLoop):
    def __init__(self):
        real = selectors.DefaultSelector()
        super().__init__(real)
        self._selector = _VSelector(self, real)
        self._vnow = 1000.0
        self.iterations = 0
        self.max_iterations = 5_000_000
        self._exec_outstanding = 0
        self._iter_cpu_mark = None
        self.worst_iteration_cpu = 0.0
        self.net = None

    def time(self):
        return self._vnow

    # executor accounting -------------------------------------------------
    exec_delay = 0.0    # virtual seconds an executor job appears to take (0: whatever the real thread needs, a few iterations)

    exec_hook = None    # callable(func) -> None | ("delay", seconds) | ("raise", exception): per-job decision (fault injection
                        # UNDER a real executor-based back end: the job is slow, or what it calls in the thread fails)

    exec_queue_delay = 0.0  # virtual seconds a job waits in the pool's queue before a thread takes it (a busy pool): a job whose
                            # waiter is cancelled meanwhile is taken back and never runs - what concurrent.futures does

    def run_in_executor(self, executor, func, *args):
        if self.exec_queue_delay:
            queued = self.create_future()
            qd = self.exec_queue_delay

            def start():
                if queued.done():
                    return      # cancelled while still in the queue: never run
                self.exec_queue_delay, keep = 0.0, self.exec_queue_delay
                try:
                    inner = self.run_in_executor(executor, func, *args)
                finally:
                    self.exec_queue_delay = keep

                def hand_over(f):
                    if queued.done():
                        return
                    if f.cancelled():
                        queued.cancel()
                    elif f.exception() is not None:
                        queued.set_exception(f.exception())
                    else:
                        queued.set_result(f.result())
                inner.add_done_callback(hand_over)
                queued.add_done_callback(lambda f: f.cancelled() and inner.cancel())
            self.call_later(qd, start)
            return queued
        delay = self.exec_delay
        if self.exec_hook is not None:
            verdict = self.exec_hook(func)
            if verdict is not None and verdict[0] in ("raise", "raise_after"):
                exc = verdict[1]
                real = func

                def func(*a, _exc=exc, _after=verdict[0] == "raise_after"):
                    if _after:
                        # (a close() that reports an error has let go of the file all the same)
                        try:
                            real(*a)
                        except Exception:
                            pass
                    raise _exc
            elif verdict is not None and verdict[0] == "delay":
                delay = verdict[1]
        # a job counts as outstanding until its THREAD is through with it (not until somebody stops waiting for it: a cancelled
        # wait leaves the thread writing, and virtual time must not run ahead of that real write)
        self._check_closed()
        if executor is None:
            executor = self._default_executor
            self._check_default_executor()
            if executor is None:
                executor = concurrent.futures.ThreadPoolExecutor(thread_name_prefix="asyncio")
                self._default_executor = executor
        cf = executor.submit(func, *args)
        self._exec_outstanding += 1

        def cf_done(f):     # runs in the pool's thread when the job is over (or in ours when it was cancelled in the queue)
            try:
                self.call_soon_threadsafe(self._exec_done, f)
            except RuntimeError:
                pass        # loop closed meanwhile
        fut = asyncio.wrap_future(cf, loop=self)    # (first: the result is on its way to the loop before the job stops counting)
        cf.add_done_callback(cf_done)
        if not delay:
            return fut
        # the job runs in its real thread; its result is handed over `delay` virtual seconds later, so that "the worker is
        # inside a file operation of the executor" is a state with a duration that events can fall into
        outer = self.create_future()

        def deliver():
            if outer.done():
                return
            if fut.cancelled():
                outer.cancel()
            elif fut.exception() is not None:
                outer.set_exception(fut.exception())
            else:
                outer.set_result(fut.result())
        fut.add_done_callback(lambda f: self.call_later(delay, deliver))
        outer.add_done_callback(lambda f: f.cancelled() and fut.cancel())
        return outer

    def _exec_done(self, fut):
        self._exec_outstanding -= 1

    # network -----------------------------------------------------------------
    async def create_server(self, protocol_factory, host=None, port=None, **kw):
        return await self.net._create_server(protocol_factory, host, port, **kw)

    async def create_connection(self, protocol_factory, host=None, port=None, **kw):
        return await self.net._create_connection(protocol_factory, host, port, **kw)

    def n_ready(self):
        return len(self._ready)


class SimSock:
    def __init__(self, host, port):
        self.family = socket.AF_INET6 if ":" in host else socket.AF_INET
        self._name = (host, port, 0, 0) if self.family == socket.AF_INET6 else (host, port)

    def getsockname(self):
        return self._name


class SimServer:
    """What asyncio.base_events.Server offers and aioftp uses (3.12.1 semantics:
    wait_closed() waits for every accepted connection to be dropped)."""

    def __init__(self, net, protocol_factory, host, port):
        self.net = net
        self.loop = net.loop
        self.protocol_factory = protocol_factory
        self.host = host
        self.port = port
        self._sock = SimSock(host, port)
        self.closed = False
        self.serving = True        # False: bound, not listening yet (create_server(start_serving=False))
        self.closed_at = None
        self.created_at = net.loop.time()
        self._active = 0
        self._waiters = []
        self.accepted = []
        self.tag = None

    @property
    def sockets(self):
        return () if self.closed else (self._sock,)

    def is_serving(self):
        return self.serving and not self.closed

    def get_loop(self):
        return self.loop

    def close(self):
        if self.closed:
            return
        self.closed = True
        self.closed_at = self.loop.time()
        if self.net.listeners.get(self.port) is self:
            del self.net.listeners[self.port]
        if self._active == 0:
            self._wakeup()

    def _wakeup(self):
        waiters, self._waiters = self._waiters, None
        for w in waiters:
            if not w.done():
                w.set_result(None)

    def _attach(self):
        self._active += 1

    def _detach(self):
        self._active -= 1
        if self._active == 0 and self.closed:
            self._wakeup()

    async def wait_closed(self):
        if self._waiters is None:
            return
        w = self.loop.create_future()
        self._waiters.append(w)
        await w

    async def start_serving(self):
        # Server.start_serving(): "_start_serving(); await tasks.sleep(0)"
        self.serving = True
        for i in range(max(1, self.net.listen_post_yields)):
            if self.net.on_listen is not None:
                self.net.on_listen("post", self.port)
            await asyncio.sleep(0)

    async def serve_forever(self):
        fut = self.loop.create_future()
        try:
            await fut
        except asyncio.CancelledError:
            self.close()
            await self.wait_closed()
            raise

    async def __aenter__(self):
        return self

    async def __aexit__(self, *exc):
        self.close()
        await self.wait_closed()


OPEN, CLOSING, CLOSED = "open", "closing", "closed"


class _Pipe:
    """One direction of a connection: FIFO of segments with latency."""

    def __init__(self, conn, name):
        self.conn = conn
        self.net = conn.net
        self.loop = conn.net.loop
        self.name = name
        self.src = None
        self.dst = None
        self.sendbuf = bytearray()
        self.flight = collections.deque()
        self.flight_bytes = 0
        self.last_arrival = 0.0
        self.fin_pending = False
        self.fin_sent = False
        self.bytes_sent = 0

    def _seg_size(self):
        mss = self.conn.mss
        if mss == "rand":
            return self.net.rng.choice(MSS_CHOICES)
        return mss

    def pump(self):
        window = self.conn.window
        while self.sendbuf:
            room = window - self.flight_bytes - self.dst.held_bytes
            if room <= 0:
                break
            n = max(1, min(self._seg_size(), len(self.sendbuf), room))
            seg = bytes(self.sendbuf[:n])
            del self.sendbuf[:n]
            self.bytes_sent += n
            self._launch(("DATA", seg))
        if not self.sendbuf and self.fin_pending and not self.fin_sent:
            self.fin_sent = True
            self._launch(("FIN", b""))
        self.src._after_pump()

    def _launch(self, item):
        lat = self.conn.latency
        if self.conn.jitter:
            lat += self.net.rng.random() * self.conn.jitter
        t = max(self.loop.time() + lat, self.last_arrival)
        self.last_arrival = t
        self.flight.append(item)
        self.flight_bytes += len(item[1])
        self.net.inflight += 1
        self.loop.call_at(t, self._arrive)

    def launch_rst(self):
        self.sendbuf.clear()
        self._launch(("RST", b""))

    def _arrive(self):
        kind, data = self.flight.popleft()
        self.flight_bytes -= len(data)
        self.net.inflight -= 1
        self.dst._incoming(kind, data)
        self.net._event(self.conn, self.name, kind, len(data))
        if self.sendbuf:
            self.pump()


class SimTransport(asyncio.Transport):
    def __init__(self, net, conn, side):
        super().__init__()
        self.net = net
        self.loop = net.loop
        self.conn = conn
        self.side = side  # "connect" | "accept"
        self.protocol = None
        self.state = OPEN
        self.out = None
        self.inp = None
        self.held = collections.deque()
        self.held_bytes = 0
        self.paused = True  # until a protocol is attached
        self.user_paused = False
        self.proto_write_paused = False
        self.high, self.low = 65536, 16384
        self.server = None
        self.created_at = net.loop.time()
        self.closed_at = None
        self.close_called_at = None
        self.closed_by_gc = False
        self.lost_exc = None
        self.bytes_in = 0
        self.eof_in = False
        self.rst_sent = False
        self.write_paused_at = None   # since when the protocol is told to stop writing (peer not reading)
        self.last_data_in_at = None
        self._extra = {}
        self._lost_scheduled = False

    # --- asyncio.Transport API -----------------------------------------
    def get_extra_info(self, name, default=None):
        return self._extra.get(name, default)

    def set_protocol(self, protocol):
        self.protocol = protocol

    def get_protocol(self):
        return self.protocol

    def is_closing(self):
        return self.state != OPEN

    def is_reading(self):
        return self.state == OPEN and not self.user_paused

    def pause_reading(self):
        self.user_paused = True
        self.paused = True

    def resume_reading(self):
        if not self.user_paused:
            return
        self.user_paused = False
        self.paused = False
        if self.held:
            self.loop.call_soon(self._drain_held)

    def set_write_buffer_limits(self, high=None, low=None):
        if high is None:
            high = 65536 if low is None else 4 * low
        if low is None:
            low = high // 4
        self.high, self.low = high, low

    def get_write_buffer_limits(self):
        return self.low, self.high

    def get_write_buffer_size(self):
        return len(self.out.sendbuf)

    def can_write_eof(self):
        return True

    def write_eof(self):
        if self.state != OPEN:
            return
        self.out.fin_pending = True
        self.out.pump()

    def write(self, data):
        if not isinstance(data, (bytes, bytearray, memoryview)):
            raise TypeError(f"data argument must be a bytes-like object, not {type(data).__name__!r}")
        if self.out.fin_pending and self.state == OPEN:
            raise RuntimeError("Cannot call write() after write_eof()")
        if self.state != OPEN or not data:
            return
        self.out.sendbuf += data
        self.out.pump()
        if not self.proto_write_paused and len(self.out.sendbuf) > self.high:
            self.proto_write_paused = True
            self.write_paused_at = self.loop.time()
            self.protocol.pause_writing()

    def writelines(self, lines):
        self.write(b"".join(lines))

    def close(self):
        if self.state != OPEN:
            return
        try:
            f = sys._getframe(1)
            for _ in range(3):
                if f is None:
                    break
                if f.f_code.co_name == "__del__":
                    self.closed_by_gc = True
                    break
                f = f.f_back
        except ValueError:
            pass
        self.state = CLOSING
        self.close_called_at = self.loop.time()
        self.held.clear()
        self.held_bytes = 0
        self.out.fin_pending = True
        self.out.pump()
        self._had_unsent_at_close = bool(self.out.sendbuf)
        # the peer's window may have opened because we dropped held data
        if self.inp.sendbuf:
            self.inp.pump()

    def abort(self):
        if self.state == CLOSED and getattr(self, "_closed_by_flush", False) and self.closed_at is not None:
            # CPython's selector transport: a close() with unsent data finishes through the write path, which leaves
            # _conn_lost at 0 and the loop reference cleared; abort() on such a transport is no no-op, it raises
            raise AttributeError("'NoneType' object has no attribute 'call_soon'")
        if self.state == CLOSED:
            return
        self.state = CLOSED
        if self.close_called_at is None:
            self.close_called_at = self.loop.time()
        self.held.clear()
        self.held_bytes = 0
        self.out.launch_rst()
        self.rst_sent = True
        self._schedule_lost(None)

    # --- internals -------------------------------------------------------
    def _after_pump(self):
        if self.proto_write_paused and len(self.out.sendbuf) <= self.low and self.state != CLOSED:
            self.proto_write_paused = False
            self.write_paused_at = None
            if self.protocol is not None:
                self.protocol.resume_writing()
        if self.state == CLOSING and not self.out.sendbuf and self.out.fin_sent:
            self.state = CLOSED
            if getattr(self, "_had_unsent_at_close", False):
                self._closed_by_flush = True
            self._schedule_lost(None)

    def _schedule_lost(self, exc):
        if self._lost_scheduled:
            return
        self._lost_scheduled = True
        self.lost_exc = exc
        self.loop.call_soon(self._call_connection_lost, exc)

    def _call_connection_lost(self, exc):
        self.closed_at = self.loop.time()
        try:
            if self.protocol is not None:
                self.protocol.connection_lost(exc)
        finally:
            if self.server is not None:
                self.server._detach()
                self.server = None

    def _fatal(self, exc):
        if self.state == CLOSED:
            return
        self.state = CLOSED
        self.out.sendbuf.clear()
        self.held.clear()
        self.held_bytes = 0
        self._schedule_lost(exc)

    def _incoming(self, kind, data):
        if kind == "RST":
            self._fatal(ConnectionResetError(errno.ECONNRESET, "Connection reset by peer"))
            return
        if self.state == CLOSED:
            if kind == "DATA" and not self.rst_sent:
                self.rst_sent = True
                self.out.launch_rst()
            return
        if self.state == CLOSING:
            return
        if self.paused:
            self.held.append((kind, data))
            self.held_bytes += len(data)
            return
        self._deliver(kind, data)

    def _deliver(self, kind, data):
        if kind == "DATA":
            self.bytes_in += len(data)
            self.last_data_in_at = self.loop.time()
            self.protocol.data_received(data)
        elif kind == "FIN":
            self.eof_in = True
            keep = self.protocol.eof_received()
            if not keep:
                self.close()

    def _drain_held(self):
        while self.held and not self.paused and self.state == OPEN:
            kind, data = self.held.popleft()
            self.held_bytes -= len(data)
            self._deliver(kind, data)
        if self.inp.sendbuf:
            self.inp.pump()

    def _attach_protocol(self, protocol):
        self.protocol = protocol
        protocol.connection_made(self)
        if not self.user_paused:
            self.paused = False
            if self.held:
                self.loop.call_soon(self._drain_held)

    def __repr__(self):
        return f"<SimTransport c{self.conn.id} {self.side} {self.state}>"


class SimConn:
    def __init__(self, net, cid, host, port):
        self.net = net
        self.id = cid
        self.host = host
        self.port = port
        self.mss = net.mss
        self.latency = net.latency
        self.jitter = net.jitter
        self.window = net.window
        self.client = None
        self.server_side = None
        self.c2s = None
        self.s2c = None
        self.listener = None


class Net:
    def __init__(self, loop, seed=0, *, mss=1460, latency=0.001, jitter=0.0, window=65536,
                 listen_pre_yields=1, listen_post_yields=1):
        self.loop = loop
        loop.net = self
        self.rng = random.Random(seed)
        self.mss = mss
        self.latency = latency
        self.jitter = jitter
        self.window = window
        self.listen_pre_yields = listen_pre_yields
        self.listen_post_yields = listen_post_yields
        self.listeners = {}
        self.servers = []       # every listener ever created
        self.transports = []    # every transport ever created
        self.conns = []
        self.events = []        # (idx, t, conn, dir, kind, n)
        self.inflight = 0
        self.on_event = None
        self.on_listen = None   # callable(stage, port) at each start-up suspension point
        self.conn_policy = None
        self.next_conn_latency = None
        # bytes the connecting peer has sent so early that they sit in the socket buffer when the server's loop gets round to
        # accepting the connection: the server's protocol sees them one loop iteration after connection_made (what a real
        # selector loop does: the transport registers its reader in the iteration of connection_made, the next select() says
        # "readable" at once)
        self.next_conn_early_data = None
        self.bind_faults = {}   # port -> list of errno|None consumed per attempt
        self.blackhole_ports = set()    # a connect to these is never answered (SYNs dropped): the system gives up after ~127 s
        self.bind_log = []
        self._next_port = 40000
        self._next_cport = 50000

    # --- events -------------------------------------------------------------
    def _event(self, conn, direction, kind, n):
        idx = len(self.events)
        self.events.append((idx, round(self.loop.time(), 6), conn.id, direction, kind, n))
        if self.on_event is not None:
            self.on_event(idx, conn, direction, kind, n)

    def order_signature(self):
        return tuple((c, d, k) for (_, _, c, d, k, _) in self.events)

    # --- listeners ----------------------------------------------------------
    async def _create_server(self, protocol_factory, host=None, port=None, *, ssl=None,
                             start_serving=True, **kw):
        if ssl is not None:
            raise NotImplementedError("simnet: no TLS")
        if host is None or host == "":
            host = "0.0.0.0"
        for i in range(self.listen_pre_yields):
            if self.on_listen is not None:
                self.on_listen("pre", port)
            await asyncio.sleep(0)
        plan = self.bind_faults.get(port)
        if plan:
            e = plan.pop(0)
            if e is not None:
                self.bind_log.append((port, e))
                raise OSError(e, f"simnet: bind failure injected on port {port}")
        if port:
            if port in self.listeners:
                self.bind_log.append((port, errno.EADDRINUSE))
                raise OSError(errno.EADDRINUSE, f"simnet: port {port} in use")
        else:
            while self._next_port in self.listeners:
                self._next_port += 1
            port = self._next_port
            self._next_port += 1
        srv = SimServer(self, protocol_factory, host, port)
        self.listeners[port] = srv
        self.servers.append(srv)
        self.bind_log.append((port, None))
        # CPython 3.12 create_server(): "server._start_serving(); await tasks.sleep(0)" - a caller cancelled inside that
        # sleep never gets the Server object, and nothing closes it: the listener stays bound and accepting (seen on real
        # sockets, repro/real_cancel_inside_start_server.py).  Earlier versions of this model closed it, which hid that.
        if not start_serving:
            srv.serving = False
            return srv
        for i in range(self.listen_post_yields):
            if self.on_listen is not None:
                self.on_listen("post", port)
            await asyncio.sleep(0)
        return srv

    # --- connections --------------------------------------------------------
    async def _create_connection(self, protocol_factory, host=None, port=None, *, ssl=None, **kw):
        if ssl:
            raise NotImplementedError("simnet: no TLS")
        if port in self.blackhole_ports:
            await asyncio.sleep(127.0)
            raise TimeoutError(errno.ETIMEDOUT, f"simnet: connect to {host}:{port} timed out")
        conn = SimConn(self, len(self.conns), host, port)
        self.conns.append(conn)
        if self.conn_policy is not None:
            self.conn_policy(conn)
        if self.next_conn_latency is not None:
            conn.latency = self.next_conn_latency
            self.next_conn_latency = None
        cport = self._next_cport
        self._next_cport += 1
        client = SimTransport(self, conn, "connect")
        server = SimTransport(self, conn, "accept")
        conn.client, conn.server_side = client, server
        conn.c2s, conn.s2c = _Pipe(conn, "c2s"), _Pipe(conn, "s2c")
        conn.c2s.src, conn.c2s.dst = client, server
        conn.s2c.src, conn.s2c.dst = server, client
        client.out, client.inp = conn.c2s, conn.s2c
        server.out, server.inp = conn.s2c, conn.c2s
        await asyncio.sleep(conn.latency)
        lst = self.listeners.get(port)
        if lst is None or lst.closed or not lst.serving:
            await asyncio.sleep(conn.latency)
            raise ConnectionRefusedError(errno.ECONNREFUSED, f"simnet: connect to {host}:{port} refused")
        conn.listener = lst
        chost = "::1" if ":" in lst.host else "127.0.0.1"
        shost = lst.host if lst.host not in ("0.0.0.0", "::") else chost
        if ":" in chost:
            client._extra = {"peername": (shost, port, 0, 0), "sockname": (chost, cport, 0, 0)}
            server._extra = {"peername": (chost, cport, 0, 0), "sockname": (shost, port, 0, 0)}
        else:
            client._extra = {"peername": (shost, port), "sockname": (chost, cport)}
            server._extra = {"peername": (chost, cport), "sockname": (shost, port)}
        server.server = lst
        lst._attach()
        lst.accepted.append(server)
        self.transports.append(server)
        self.transports.append(client)
        self._event(conn, "c2s", "SYN", 0)
        try:
            server._attach_protocol(lst.protocol_factory())
            if self.next_conn_early_data is not None:
                early, self.next_conn_early_data = self.next_conn_early_data, None
                self._event(conn, "c2s", "DATA", len(early))
                self.loop.call_soon(server._incoming, "DATA", early)
            await asyncio.sleep(conn.latency)
        except BaseException:
            client.protocol = None
            client.abort()
            raise
        protocol = protocol_factory()
        client._attach_protocol(protocol)
        return client, protocol

    # --- ledger -------------------------------------------------------------
    def open_transports(self, side=None):
        return [t for t in self.transports if t.state != CLOSED and (side is None or t.side == side)]

    def open_listeners(self):
        return [s for s in self.servers if not s.closed]

    async def quiesce(self, grace=5.0, step=0.05, max_steps=2000):
        """Let every timer due within ``grace`` virtual seconds fire, then step until
        nothing is runnable, nothing is in flight and no executor job is out."""
        await asyncio.sleep(grace)
        for _ in range(max_steps):
            if self.loop.n_ready() == 0 and self.inflight == 0 and self.loop._exec_outstanding == 0:
                return True
            await asyncio.sleep(step)
        return False

    async def settle(self, max_steps=2000):
        """Network quiescence without letting long timers pass: step in units of the
        base latency until no segment is in flight and nothing is runnable."""
        step = max(self.latency, 1e-4)
        calm = 0
        for _ in range(max_steps):
            await asyncio.sleep(step)
            if self.loop.n_ready() == 0 and self.inflight == 0 and self.loop._exec_outstanding == 0:
                calm += 1
                if calm >= 3:
                    return True
            else:
                calm = 0
        return False


def run_sim(main_factory, *, seed=0, net_kwargs=None, max_iterations=2_000_000):
    """Run ``main_factory(net)`` (a coroutine function) to completion on a fresh
    SimLoop.  Returns (result, net, loop_stats); raises what main raises."""
    loop = SimLoop()
    net = Net(loop, seed, **(net_kwargs or {}))
    asyncio.set_event_loop(loop)
    try:
        loop.max_iterations = max_iterations
        main = loop.create_task(main_factory(net))
        result = loop.run_until_complete(main)
        return result, net, {"iterations": loop.iterations, "vtime": loop.time() - 1000.0}
    finally:
        try:
            pending = [t for t in asyncio.all_tasks(loop) if not t.done()]
            for t in pending:
                t.cancel()
            if pending:
                try:
                    loop.run_until_complete(asyncio.gather(*pending, return_exceptions=True))
                except BaseException:
                    pass
            try:
                loop.run_until_complete(loop.shutdown_asyncgens())
                loop.run_until_complete(loop.shutdown_default_executor())
            except BaseException:
                pass
        finally:
            asyncio.set_event_loop(None)
            loop.close()
