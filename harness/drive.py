"""Drive scripted sessions against a World with a fault delivered at a chosen
network event (cut / server.close() / stall) - shared by C10, C12, C16, C17."""

import asyncio

from .corpus import Session


class Drive:
    def __init__(self, net, world, scripts, *, offsets=None, cut=None, port=2121, names=None):
        self.net = net
        self.world = world
        self.scripts = scripts
        self.offsets = offsets or [0] * len(scripts)
        self.cut = cut
        self.sessions = [Session(net, port, name=(names[j] if names else f"s{j}")) for j in range(len(scripts))]
        self.tasks = []
        self.cut_done = False
        self.cut_time = None
        self.close_task = None
        self.drainers = []
        self.extra_hook = None
        self.frozen = False

    def _chain(self, i, fn):
        if i <= 0:
            fn()
        else:
            self.net.loop.call_soon(self._chain, i - 1, fn)

    async def _drain(self, reader):
        try:
            while True:
                d = await reader.read(65536)
                if not d:
                    return
        except (ConnectionError, asyncio.CancelledError):
            return

    def _do_cut(self):
        if self.cut_done:
            return
        self.cut_done = True
        self.cut_time = self.net.loop.time()
        cut = self.cut
        action = cut["action"]
        who = cut.get("who", 0)
        targets = self.sessions if who == "all" else [self.sessions[who]]
        idxs = range(len(self.sessions)) if who == "all" else [who]
        if action in ("server-close", "server-close-noread"):
            self.frozen = True
            for s in targets:
                s.peer.freeze()
                if action == "server-close-noread":
                    # the peers keep every socket open but do not read a single byte any more
                    if s.peer.writer is not None:
                        s.peer.writer.transport.pause_reading()
                    for r, w in s.peer.data_conns:
                        w.transport.pause_reading()
        else:
            for j in idxs:
                t = self.tasks[j]
                if not t.done():
                    t.cancel()
        for s in targets:
            s.alive = False
            s.ended_by = "cut:" + action
            if cut.get("zero_latency") and getattr(s.peer, "conn", None) is not None:
                s.peer.conn.latency = 0.0
                for _, w in s.peer.data_conns:
                    w.transport.conn.latency = 0.0
            if action in ("rst", "rst+close"):
                s.peer.cut("rst")
            elif action == "fin+close":
                s.peer.cut("fin")
            elif action == "quit+close":
                if s.peer.writer is not None:
                    s.peer.send("QUIT")
            elif action == "fin":
                s.peer.cut("fin")
            elif action == "ctrl-rst":
                s.peer.cut("rst", data=False)
                for r, w in s.peer.data_conns:
                    self.drainers.append(asyncio.ensure_future(self._drain(r)))
            elif action == "ctrl-rst-noread":
                # control vanishes; the data socket stays open but the peer never reads it again
                s.peer.cut("rst", data=False)
            elif action == "ctrl-fin":
                s.peer.cut("fin", data=False)
                for r, w in s.peer.data_conns:
                    self.drainers.append(asyncio.ensure_future(self._drain(r)))
            elif action == "data-rst":
                for r, w in s.peer.data_conns:
                    w.transport.abort()
            elif action in ("server-close", "server-close-noread"):
                # the peer stays, idle; a script blocked in a data read keeps reading (unless -noread)
                pass
            elif action == "stall":
                # complete silence, all sockets stay open, the peer keeps reading what arrives
                for r, w in s.peer.data_conns:
                    self.drainers.append(asyncio.ensure_future(self._drain(r)))
            elif action == "stall-noread":
                # complete silence, all sockets stay open, nothing is read any more
                pass
            else:
                raise ValueError(action)
        if action in ("server-close", "server-close-noread"):
            self.close_task = asyncio.ensure_future(self.world.server.close())
        if action.endswith("+close"):
            # the session ends on its own and Server.close() lands j loop iterations later,
            # i.e. somewhere inside that session's own clean-up
            def start_close():
                self.close_task = asyncio.ensure_future(self.world.server.close())
            self._chain(cut.get("close_after", 0), start_close)

    def _on_event(self, idx, conn, direction, kind, nbytes):
        if self.extra_hook is not None:
            self.extra_hook(idx, conn, direction, kind, nbytes)
        cut = self.cut
        if cut and not self.cut_done and idx == cut["k"]:
            it = cut.get("iters", 0)
            if it:
                self._chain(it, self._do_cut)
            else:
                self._do_cut()

    async def _one(self, j):
        if self.offsets[j]:
            await asyncio.sleep(self.offsets[j])
        await self.sessions[j].run(self.scripts[j])

    async def run(self):
        self.net.on_event = self._on_event
        self.tasks = [asyncio.ensure_future(self._one(j)) for j in range(len(self.scripts))]
        while True:
            done, pending = await asyncio.wait(self.tasks, timeout=0.5)
            if not pending:
                break
            if self.frozen and self.net.loop.time() - self.cut_time > 2.0:
                break  # the frozen peers sit idle; the scenario goes on without them
        for t in self.tasks:
            if t.done() and not t.cancelled() and t.exception() is not None:
                raise t.exception()
        self.net.on_event = None
        return self.sessions

    def harness_tasks(self):
        out = set(self.tasks) | set(self.drainers)
        if self.close_task is not None:
            out.add(self.close_task)
        return out

    def finish_peers(self):
        for t in self.tasks:
            if not t.done():
                t.cancel()
        for s in self.sessions:
            s.peer.cut("fin")
        for d in self.drainers:
            d.cancel()
