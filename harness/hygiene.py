"""Always-on generic monitors (DESIGN.md 2.7): loop exception handler,
unraisable hook, ResourceWarning capture, aioftp log capture."""

import gc
import logging
import sys
import warnings


class _ListHandler(logging.Handler):
    def __init__(self, sink):
        super().__init__(level=1)
        self.sink = sink

    def emit(self, record):
        self.sink.append(record)


def _is_cpython_cancel_noise(context):
    """CPython 3.12.1 StreamReaderProtocol.connection_made.<locals>.callback calls
    task.exception() on a cancelled handler task -> "Exception in callback" with a
    CancelledError whenever a dispatcher is cancelled.  Interpreter noise."""
    handle = context.get("handle")
    exc = context.get("exception")
    if handle is None or exc is None:
        return False
    import asyncio
    if not isinstance(exc, asyncio.CancelledError):
        return False
    cb = getattr(handle, "_callback", None)
    qn = getattr(cb, "__qualname__", "")
    return qn == "StreamReaderProtocol.connection_made.<locals>.callback"


class Hygiene:
    """Context manager around one case."""

    def __init__(self, loop=None):
        self.loop_errors = []     # contexts passed to the loop exception handler
        self.noise = 0
        self.unraisable = []
        self.warnings = []
        self.records = []         # every LogRecord of the aioftp loggers / root
        self._old = {}

    def install_loop(self, loop):
        def handler(loop_, context):
            if _is_cpython_cancel_noise(context):
                self.noise += 1
                return
            entry = {"message": context.get("message")}
            exc = context.get("exception")
            if exc is not None:
                entry["exception"] = repr(exc)
            for k in ("task", "future", "handle", "source_traceback"):
                if k in context and k != "source_traceback":
                    entry[k] = repr(context[k])[:300]
            self.loop_errors.append(entry)
        loop.set_exception_handler(handler)

    def __enter__(self):
        self._old["unraisable"] = sys.unraisablehook

        def hook(u):
            self.unraisable.append({"exc": repr(u.exc_value), "obj": repr(u.object)[:200],
                                    "msg": u.err_msg})
        sys.unraisablehook = hook
        self._cw = warnings.catch_warnings(record=True)
        self._wlist = self._cw.__enter__()
        warnings.simplefilter("always")
        self._handler = _ListHandler(self.records)
        root = logging.getLogger()
        self._old["level"] = root.level
        root.setLevel(1)        # every level, also what a library logs below DEBUG
        root.addHandler(self._handler)
        self._old["lastResort"] = logging.lastResort
        logging.lastResort = None
        return self

    def __exit__(self, *exc):
        gc.collect()
        for w in self._wlist:
            self.warnings.append({"category": w.category.__name__, "message": str(w.message)[:300]})
        self._cw.__exit__(None, None, None)
        sys.unraisablehook = self._old["unraisable"]
        root = logging.getLogger()
        root.removeHandler(self._handler)
        root.setLevel(self._old["level"])
        logging.lastResort = self._old["lastResort"]
        return False

    # -- queries -------------------------------------------------------------
    def serious_loop_errors(self):
        """what reached the loop's exception handler, without asyncio's "Task exception was never retrieved" about a
        *sub-task* of a session that ended anyway (the dispatcher stops at the first failed task and never looks at the
        others): untidy, but neither the server nor another session is affected.  The same message about the session
        handler itself (Server.dispatcher) stays serious."""
        out = []
        for e in self.loop_errors:
            if e.get("message") == "Task exception was never retrieved" and "Server.dispatcher" not in (e.get("future") or ""):
                continue
            out.append(e)
        return out

    def pending_task_destroyed(self):
        return [e for e in self.loop_errors if e.get("message") and "destroyed but it is pending" in e["message"]]

    def never_retrieved(self):
        return [e for e in self.loop_errors if e.get("message") and "never retrieved" in e["message"]]

    def resource_warnings(self):
        return [w for w in self.warnings if w["category"] == "ResourceWarning"]

    def logged_exceptions(self):
        out = []
        for r in self.records:
            if r.exc_info:
                out.append({"logger": r.name, "msg": r.getMessage(), "exc": repr(r.exc_info[1])})
        return out

    def summary(self):
        return {
            "loop_errors": self.loop_errors[:5],
            "n_loop_errors": len(self.loop_errors),
            "noise": self.noise,
            "unraisable": self.unraisable[:5],
            "resource_warnings": self.resource_warnings()[:5],
            "logged_exceptions": self.logged_exceptions()[:5],
        }
