"""setup-time smoke: aioftp imports from the tree under test and a complete session
runs over the simulated network with a clean ledger."""
import sys

from . import boot, world as W
from .corpus import Session, corpus, corpus_tree


def main():
    async def case(net, hyg):
        w = W.World(net, tree=corpus_tree())
        await w.start()
        s = Session(net, 2121)
        await s.run(corpus()["two_transfers"])
        await w.stop()
        await net.quiesce(1.0)
        return s.flat_codes(), w.leaks(expect_server_closed=True)
    res, info = W.run(case, seed=1)
    if res is None:
        print("setup smoke failed:", info.get("deadlock") or info.get("error"), info.get("trace", ""))
        return 1
    codes, leaks = res
    print("setup smoke: aioftp from", boot.AIOFTP_FILE, "codes", codes, "leaks", leaks)
    return 0 if codes and codes[0] == "220" else 1


if __name__ == "__main__":
    sys.exit(main())
