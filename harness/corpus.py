"""Scripted raw-peer sessions and the deterministic script corpus (DESIGN.md 2.5).

A script is a list of JSON-able steps; ``Session.run`` executes them over a
``RawPeer``.  A step never raises for what the server does: lost connections and
missing replies are recorded and end the script.
"""

import asyncio

from .rawpeer import RawPeer, ProtocolGarbage, REPLY_WAIT


def payload_bytes(n, salt=0):
    """Position-coded content: duplication, reordering and a dropped tail are visible."""
    out = bytearray()
    i = 0
    while len(out) < n:
        out += b"%06d|" % ((i * 7 + salt) % 1000000)
        i += 1
    return bytes(out[:n])


class Session:
    def __init__(self, net, port, name="s", host="127.0.0.1"):
        self.net = net
        self.peer = RawPeer(net, port, host=host, name=name)
        self.name = name
        self.pasv_port = None
        self.data = None
        self.downloads = []   # (verb, arg, bytes, status)
        self.outcomes = []    # per step: list of reply codes / markers
        self.alive = True
        self.ended_by = None
        self.step_index = -1
        self.current_step = None
        self.step_marks = []  # (step_index, event_count_at_start)

    # ---------------------------------------------------------------- helpers
    def _codes(self, *replies):
        out = []
        for r in replies:
            if r is None:
                out.append("TIMEOUT")
            elif r == "EOF":
                out.append("EOF")
            else:
                out.append(r.code)
        return out

    def _dead(self, r):
        if r is None:
            self.alive = False
            self.ended_by = "timeout"
            return True
        if r == "EOF":
            self.alive = False
            self.ended_by = "eof"
            return True
        return False

    async def _close_data(self):
        if self.data is not None:
            r, w = self.data
            w.close()
            self.data = None

    # ---------------------------------------------------------------- steps
    async def step(self, st):
        kind = st[0]
        p = self.peer
        if kind == "connect":
            r = await p.connect()
            self.outcomes.append(self._codes(r))
            if self._dead(r):
                return False
            return r.code == "220"
        if kind == "login":
            user = st[1] if len(st) > 1 else "anonymous"
            pw = st[2] if len(st) > 2 else None
            r = await p.cmd("USER " + user)
            codes = self._codes(r)
            if self._dead(r):
                self.outcomes.append(codes)
                return False
            if r.code == "331" and pw is not None:
                r = await p.cmd("PASS " + pw)
                codes += self._codes(r)
                if self._dead(r):
                    self.outcomes.append(codes)
                    return False
            self.outcomes.append(codes)
            return True
        if kind == "cmd":
            r = await p.cmd(st[1])
            self.outcomes.append(self._codes(r))
            return not self._dead(r)
        if kind == "raw":
            p.send(bytes.fromhex(st[1]))
            if len(st) > 2 and st[2] == "noreply":
                self.outcomes.append(["SENT"])
                return True
            r = await p.read_reply()
            self.outcomes.append(self._codes(r))
            return not self._dead(r)
        if kind in ("pasv", "epsv"):
            await self._close_data()
            r = await p.cmd(kind.upper() + (" " + st[1] if len(st) > 1 else ""))
            self.outcomes.append(self._codes(r))
            if self._dead(r):
                return False
            try:
                if r.code == "227":
                    self.pasv_port = p.parse_pasv(r)[1]
                elif r.code == "229":
                    self.pasv_port = p.parse_epsv(r)
            except Exception:
                self.outcomes[-1].append("UNPARSABLE")
            return True
        if kind == "data":
            try:
                self.data = await p.open_data(self.pasv_port)
                self.outcomes.append(["CONNECTED"])
            except OSError:
                self.outcomes.append(["REFUSED"])
            return True
        if kind == "xfer":
            return await self._xfer(*st[1:])
        if kind == "pipeline":
            # several command lines written back to back in one burst, then all replies collected
            lines = st[1]
            data = "".join(x + "\r\n" for x in lines).encode()
            p.transcript.append(("C", " | ".join(lines)))
            p.writer.write(data)
            codes = []
            for _ in lines:
                r = await p.read_reply(wait=5.0)
                codes += self._codes(r)
                if r in (None, "EOF"):
                    break
                if r.code == "227":
                    try:
                        self.pasv_port = p.parse_pasv(r)[1]
                    except Exception:
                        pass
                elif r.code == "229":
                    try:
                        self.pasv_port = p.parse_epsv(r)
                    except Exception:
                        pass
            self.outcomes.append(codes)
            if "EOF" in codes:
                self.alive = False
                self.ended_by = "eof"
                return False
            return True
        if kind == "flood":
            # stop reading the control connection and send n commands whose replies exceed every buffer on the way back
            n, width = st[1], st[2]
            p.writer.transport.pause_reading()
            line = ("X" * width + "\r\n").encode()
            p.transcript.append(("C", f"{n} x unknown command of {width} chars, replies never read"))
            for i in range(0, n, 200):
                p.writer.write(line * min(200, n - i))
                try:
                    await asyncio.wait_for(p.writer.drain(), 5.0)
                except (asyncio.TimeoutError, ConnectionError):
                    break
            self.outcomes.append(["FLOODED"])
            return True
        if kind == "sleep":
            await asyncio.sleep(st[1])
            self.outcomes.append(["SLEPT"])
            return True
        if kind == "quit":
            r = await p.cmd("QUIT")
            codes = self._codes(r)
            if not self._dead(r):
                r2 = await p.read_reply()
                codes += self._codes(r2)
                self.alive = False
                self.ended_by = "quit"
            self.outcomes.append(codes)
            p.close()
            return False
        if kind == "cut":
            p.cut(st[1] if len(st) > 1 else "rst")
            self.alive = False
            self.ended_by = "cut"
            self.outcomes.append(["CUT"])
            return False
        if kind == "cut_control":
            # only the control connection goes (the data connections of the peer stay open, unread)
            p.cut(st[1] if len(st) > 1 else "rst", data=False)
            self.alive = False
            self.ended_by = "cut"
            self.outcomes.append(["CUT"])
            return False
        if kind == "sendcut":
            # back-to-back: the command and the disappearance in one burst
            p.send(st[1])
            p.cut(st[2] if len(st) > 2 else "fin")
            self.alive = False
            self.ended_by = "cut"
            self.outcomes.append(["SENT+CUT"])
            return False
        if kind == "xfer_abort":
            # start a download of a file larger than every buffer, read a little, stop reading and ABOR it
            verb, arg, nread = st[1], st[2], st[3]
            if self.data is None:
                try:
                    self.data = await p.open_data(self.pasv_port)
                except OSError:
                    self.outcomes.append(["REFUSED"])
                    return True
            r1 = await p.cmd(f"{verb} {arg}")
            codes = self._codes(r1)
            if self._dead(r1):
                self.outcomes.append(codes)
                return False
            dr, dw = self.data
            got = b""
            if r1.code.startswith("1"):
                got, status = await p.read_data(dr, wait=10, limit=nread)
                # two replies follow: the transfer's own completion (426, or 2xx if it had already finished)
                # and the reply to ABOR (226)
                r2 = await p.cmd("ABOR")
                codes += self._codes(r2)
                if not self._dead(r2):
                    r3 = await p.read_reply()
                    codes += self._codes(r3)
                    self._dead(r3)
            dw.close()
            self.data = None
            self.outcomes.append(codes)
            self.downloads.append([verb, arg, b"", "aborted"])
            return self.alive
        if kind == "xfer_stall":
            # a download of a file larger than every buffer; the peer reads a little and then stops reading (it keeps the data
            # connection open): whatever completion reply the server has is collected, then the peer waits `linger` seconds
            verb, arg, nread, linger = st[1], st[2], st[3], (st[4] if len(st) > 4 else 0)
            if self.data is None:
                try:
                    self.data = await p.open_data(self.pasv_port)
                except OSError:
                    self.outcomes.append(["REFUSED"])
                    return True
            r1 = await p.cmd(f"{verb} {arg}")
            codes = self._codes(r1)
            if self._dead(r1):
                self.outcomes.append(codes)
                return False
            dr, dw = self.data
            if r1.code.startswith("1"):
                await p.read_data(dr, wait=10, limit=nread)
                r2 = await p.read_reply()
                codes += self._codes(r2)
                self._dead(r2)
                if linger:
                    await asyncio.sleep(linger)
            dw.close()
            self.data = None
            self.outcomes.append(codes)
            self.downloads.append([verb, arg, b"", "stalled"])
            return self.alive
        if kind == "cut_then_data":
            # the control connection vanishes and, i loop iterations later, the data
            # connection the peer had already started arrives at the passive listener
            ck, iters = st[1], st[2]
            p.conn.latency = 0.0
            p.cut(ck, data=False)
            for _ in range(iters):
                await asyncio.sleep(0)
            self.net.next_conn_latency = 0.0
            try:
                self.data = await p.open_data(self.pasv_port)
                self.outcomes.append(["CUT", "CONNECTED"])
            except OSError:
                self.outcomes.append(["CUT", "REFUSED"])
            self.alive = False
            self.ended_by = "cut"
            return False
        raise ValueError(f"unknown step {st!r}")

    async def _xfer(self, verb, arg, payload_len=None, connect="before", salt=0, chunk=None, gap=0, between=None):
        """Transfer step.  verb in RETR/STOR/APPE/LIST/MLSD.  connect: when the data
        channel is made relative to the command (before|after|never|keep).  between: command lines sent (and
        answered) after the 1xx mark and before the data connection is made (needs connect="after")."""
        p = self.peer
        upload = verb in ("STOR", "APPE")
        if connect == "before" and self.data is None:
            try:
                self.data = await p.open_data(self.pasv_port)
            except OSError:
                self.outcomes.append(["REFUSED"])
                return True
        line = verb + ((" " + arg) if arg else "")
        r1 = await p.cmd(line)
        codes = self._codes(r1)
        if self._dead(r1):
            self.outcomes.append(codes)
            return False
        if not r1.code.startswith("1"):
            # no transfer: a client drops the data connection it prepared (or keeps it for the command it gives next)
            self.outcomes.append(codes)
            if not getattr(self, "keep_data_on_refusal", False):
                await self._close_data()
            return True
        for bl in (between or []):
            rb = await p.cmd(bl)
            codes.append("b:" + (rb.code if rb not in (None, "EOF") else str(rb)))
            if self._dead(rb):
                self.outcomes.append(codes)
                return False
        if connect == "after" and self.data is None:
            try:
                self.data = await p.open_data(self.pasv_port)
            except OSError:
                codes.append("REFUSED")
        status = None
        got = b""
        if self.data is not None:
            dr, dw = self.data
            if upload:
                data = payload_bytes(payload_len or 0, salt)
                try:
                    if chunk:
                        for i in range(0, len(data), chunk):
                            dw.write(data[i:i + chunk])
                            await asyncio.wait_for(dw.drain(), REPLY_WAIT)
                            if gap:
                                await asyncio.sleep(gap)
                    else:
                        dw.write(data)
                        await asyncio.wait_for(dw.drain(), REPLY_WAIT)
                    status = "sent"
                except (ConnectionError, asyncio.TimeoutError) as e:
                    status = "send-failed:" + type(e).__name__
                dw.close()
            else:
                got, status = await p.read_data(dr)
                dw.close()
            self.data = None
        r2 = await p.read_reply()
        codes += self._codes(r2)
        if status:
            codes.append(status)
        self.outcomes.append(codes)
        self.downloads.append([verb, arg, got, status])
        if self._dead(r2):
            return False
        return True

    async def run(self, steps):
        try:
            for i, st in enumerate(steps):
                self.step_index = i
                self.current_step = st
                self.step_marks.append((i, len(self.net.events)))
                try:
                    ok = await self.step(st)
                except ProtocolGarbage as e:
                    self.outcomes.append(["GARBAGE", str(e)[:80]])
                    self.alive = False
                    self.ended_by = "garbage"
                    ok = False
                except (ConnectionError, OSError) as e:
                    self.outcomes.append(["CONNERR", type(e).__name__])
                    self.alive = False
                    self.ended_by = "connerr"
                    ok = False
                if not ok:
                    break
        finally:
            self.step_index = len(steps)
        return self.outcomes

    def flat_codes(self):
        return [c for o in self.outcomes for c in o]


# ----------------------------------------------------------------------------- corpus

def corpus(prefix="", tree_has=("f.bin", "dir/g.txt")):
    """Named deterministic scripts over all 25 verbs and every transfer kind.
    ``prefix`` (e.g. "/s1") keeps concurrent sessions on disjoint sub-trees; the
    initial tree is expected to hold ``<prefix>/f.bin`` (20000 B) and
    ``<prefix>/dir/g.txt`` (10 B) (see ``corpus_tree``)."""
    P = prefix
    login = [["connect"], ["login"]]
    S = {}
    S["login_quit"] = login + [["quit"]]
    S["login_pw"] = [["connect"], ["login", "alice", "secret"], ["cmd", "PWD"], ["quit"]]
    S["login_retry"] = [["connect"], ["login", "alice", "wrong"], ["login", "alice", "secret"], ["cmd", "PWD"], ["sleep", 0.02], ["quit"]]
    S["login_bad_pw"] = [["connect"], ["login", "alice", "wrong"], ["cmd", "PWD"], ["quit"]]
    S["walk"] = login + [["cmd", f"CWD {P}/dir"], ["cmd", "PWD"], ["cmd", "CDUP"], ["cmd", "PWD"],
                         ["cmd", f"CWD {P}/nope"], ["cmd", "PWD"], ["quit"]]
    S["mkd_rmd"] = login + [["cmd", f"MKD {P}/new"], ["cmd", f"MKD {P}/new/deep/er"], ["cmd", f"RMD {P}/new/deep/er"],
                            ["cmd", f"RMD {P}/new/deep"], ["cmd", f"RMD {P}/new"], ["cmd", f"RMD {P}/new"], ["quit"]]
    S["stor_pasv"] = login + [["cmd", "TYPE I"], ["pasv"], ["xfer", "STOR", f"{P}/up.bin", 20000], ["quit"]]
    S["stor_epsv_after"] = login + [["cmd", "TYPE I"], ["epsv"], ["xfer", "STOR", f"{P}/up2.bin", 9000, "after"], ["quit"]]
    S["appe"] = login + [["epsv"], ["xfer", "APPE", f"{P}/dir/g.txt", 300], ["quit"]]
    S["retr_pasv"] = login + [["cmd", "TYPE I"], ["pasv"], ["xfer", "RETR", f"{P}/f.bin"], ["quit"]]
    S["retr_epsv_after"] = login + [["epsv"], ["xfer", "RETR", f"{P}/f.bin", None, "after"], ["quit"]]
    S["retr_rest"] = login + [["epsv"], ["cmd", "REST 12345"], ["xfer", "RETR", f"{P}/f.bin"], ["quit"]]
    S["stor_rest"] = login + [["epsv"], ["cmd", "REST 5"], ["xfer", "STOR", f"{P}/dir/g.txt", 3], ["quit"]]
    S["stor_rest_missing"] = login + [["epsv"], ["cmd", "REST 5"], ["xfer", "STOR", f"{P}/missing.bin", 3], ["cmd", "PWD"], ["quit"]]
    S["retr_missing"] = login + [["epsv"], ["xfer", "RETR", f"{P}/missing"], ["cmd", "PWD"], ["quit"]]
    S["list"] = login + [["epsv"], ["xfer", "LIST", f"{P}"], ["quit"]]
    S["mlsd"] = login + [["pasv"], ["xfer", "MLSD", f"{P}"], ["quit"]]
    S["mlsd_dir"] = login + [["cmd", f"CWD {P}/dir"], ["epsv"], ["xfer", "MLSD", ""], ["quit"]]
    S["mlst"] = login + [["cmd", f"MLST {P}/f.bin"], ["cmd", f"MLST {P}/dir"], ["cmd", f"MLST {P}/nope"], ["quit"]]
    S["rename"] = login + [["cmd", f"RNFR {P}/dir/g.txt"], ["cmd", f"RNTO {P}/dir/h.txt"],
                           ["cmd", f"RNFR {P}/dir/h.txt"], ["cmd", f"RNTO {P}/dir/g.txt"], ["cmd", f"RNTO {P}/x"], ["quit"]]
    S["dele"] = login + [["epsv"], ["xfer", "STOR", f"{P}/tmp.bin", 100], ["cmd", f"DELE {P}/tmp.bin"],
                         ["cmd", f"DELE {P}/tmp.bin"], ["quit"]]
    S["abor_idle"] = login + [["cmd", "ABOR"], ["cmd", "PWD"], ["quit"]]
    S["misc"] = login + [["cmd", "SYST"], ["cmd", "TYPE A"], ["cmd", "TYPE X"], ["cmd", "PBSZ 0"], ["cmd", "PROT P"],
                         ["cmd", "PROT C"], ["cmd", "NOOP"], ["cmd", "REST abc"], ["quit"]]
    S["two_transfers"] = login + [["epsv"], ["xfer", "RETR", f"{P}/dir/g.txt"], ["epsv"],
                                  ["xfer", "STOR", f"{P}/t2.bin", 8192], ["pasv"], ["xfer", "MLSD", f"{P}/dir"], ["quit"]]
    S["pasv_twice"] = login + [["pasv"], ["pasv"], ["epsv"], ["xfer", "RETR", f"{P}/dir/g.txt"], ["quit"]]
    S["noconnect"] = login + [["epsv"], ["xfer", "RETR", f"{P}/f.bin", None, "never"], ["cmd", "PWD"], ["quit"]]
    # (for servers with an unlimited data-connection wait: the peer never connects and never gets a 425; it just goes on)
    S["noconnect_nowait"] = login + [["epsv"], ["raw", f"RETR {P}/f.bin\r\n".encode().hex(), "noreply"], ["sleep", 0.5], ["raw", b"PWD\r\n".hex(), "noreply"],
                                    ["sleep", 0.5], ["cut", "fin"]]
    S["nologin"] = [["connect"], ["cmd", "PWD"], ["cmd", f"RETR {P}/f.bin"], ["cmd", "PASV"], ["quit"]]
    S["stor_unreachable"] = login + [["epsv"], ["xfer", "STOR", f"{P}/no/such/dir/f", 10], ["cmd", "PWD"], ["quit"]]
    S["stor_slow"] = login + [["epsv"], ["xfer", "STOR", f"{P}/slow.bin", 20000, "before", 0, 2000, 0.002], ["quit"]]
    S["retr_huge"] = login + [["pasv"], ["xfer", "RETR", f"{P}/huge.bin"], ["quit"]]
    S["abor_mid"] = login + [["pasv"], ["xfer_abort", "RETR", f"{P}/huge.bin", 30000], ["cmd", "PWD"], ["epsv"],
                             ["xfer", "RETR", f"{P}/dir/g.txt"], ["quit"]]
    S["pipelined"] = login + [["pipeline", ["PASV", "EPSV", "PWD"]], ["xfer", "RETR", f"{P}/dir/g.txt"],
                              ["pipeline", [f"CWD {P}/dir", "PWD", "CDUP", "PWD"]], ["pipeline", ["EPSV", f"REST 3", f"MLST {P}/f.bin"]], ["quit"]]
    S["pipelined_fs"] = login + [["pipeline", [f"MKD {P}/pp", "PWD", f"RMD {P}/pp", "SYST", f"MLST {P}/f.bin", "PWD", f"DELE {P}/nope", "NOOP"]],
                                 ["pipeline", [f"RNFR {P}/dir/g.txt", f"RNTO {P}/dir/g2.txt", "PWD", f"SIZE {P}/f.bin"]], ["quit"]]
    S["flood"] = login + [["flood", 3000, 90], ["sleep", 30.0]]
    S["relogin"] = login + [["cmd", f"CWD {P}/dir"], ["login"], ["cmd", "PWD"], ["quit"]]
    return S


def corpus_tree(prefixes=("",)):
    from .spyfs import DIR
    t = {}
    for p in prefixes:
        if p:
            t[p] = DIR
        t[f"{p}/f.bin"] = payload_bytes(20000, 3)
        t[f"{p}/dir"] = DIR
        t[f"{p}/dir/g.txt"] = b"0123456789"
        t[f"{p}/huge.bin"] = payload_bytes(400000, 7)
    return t


def corpus_users(base):
    import aioftp
    return [aioftp.User(base_path=base), aioftp.User("alice", "secret", base_path=base)]
