"""Runner: shards the cases of one check over sub-processes, applies the
known-findings file, writes evidence and replays (DESIGN.md 2.6, 2.9)."""

import argparse
import faulthandler
import hashlib
import importlib
import json
import os
import shutil
import subprocess
import sys
import tempfile
import time
import traceback

ROOT = os.path.dirname(os.path.dirname(os.path.abspath(__file__)))
EVIDENCE_DIR = os.environ.get("VERIF_EVIDENCE_DIR") or os.path.join(ROOT, "evidence")
REPLAY_DIR = os.environ.get("VERIF_REPLAY_DIR") or os.path.join(ROOT, "replays")
KNOWN = os.path.join(ROOT, "known_findings.json")
CASE_WATCHDOG_S = 300


def rearm():
    """re-arm the per-case watchdog; enumerating cases call it once per sub-run"""
    try:
        faulthandler.dump_traceback_later(CASE_WATCHDOG_S, exit=True)
    except Exception:
        pass


def load_check(pid):
    return importlib.import_module(f"harness.checks.{pid.lower()}")


def sig_of(obj):
    return hashlib.sha1(json.dumps(obj, sort_keys=True, default=repr).encode()).hexdigest()[:16]


def jsonable(o):
    if isinstance(o, (bytes, bytearray)):
        return {"__bytes__": bytes(o).hex()} if len(o) <= 4096 else {"__bytes_len__": len(o), "head": bytes(o[:64]).hex()}
    if isinstance(o, (set, frozenset)):
        return sorted(map(repr, o))
    if isinstance(o, tuple):
        return list(o)
    return repr(o)


def dumps(o, **kw):
    return json.dumps(o, default=jsonable, **kw)


# --------------------------------------------------------------------------- worker

def _trace_reach():
    """which functions of aioftp the workload really entered (sys.monitoring PY_START, disabled after the first hit
    of each code object, so the cost is negligible)"""
    reached = set()
    try:
        mon = sys.monitoring
        tool = 4
        mon.use_tool_id(tool, "aioftp-verif-reach")

        def on_start(code, offset):
            fn = code.co_filename
            if "aioftp" in fn and os.sep + "harness" + os.sep not in fn:
                reached.add(os.path.basename(fn) + ":" + code.co_qualname)
            return mon.DISABLE
        mon.register_callback(tool, mon.events.PY_START, on_start)
        mon.set_events(tool, mon.events.PY_START)
    except Exception:
        return None
    return reached


def worker_main(pid, casefile, outfile):
    reached = _trace_reach()
    mod = load_check(pid)
    with open(casefile) as f:
        cases = json.load(f)
    claim_dir = os.environ.get("VERIF_CLAIM_DIR")
    with open(outfile, "w") as out:
        for case in cases:
            if claim_dir:
                # dynamic distribution: every worker sees all cases and takes the next one nobody has claimed yet
                try:
                    os.close(os.open(os.path.join(claim_dir, str(case["_i"])), os.O_CREAT | os.O_EXCL | os.O_WRONLY))
                except FileExistsError:
                    continue
            faulthandler.dump_traceback_later(CASE_WATCHDOG_S, exit=True)
            t0 = time.time()
            try:
                res = mod.run_case(case)
            except BaseException as e:  # harness failure: inconclusive, never a verdict
                res = {"violations": [], "inconclusive": "harness exception: " + repr(e),
                       "trace": traceback.format_exc()[-3000:]}
            faulthandler.cancel_dump_traceback_later()
            res["case"] = case
            res["wall"] = round(time.time() - t0, 4)
            out.write(dumps(res) + "\n")
            out.flush()
            from . import world as _world
            if _world.POISONED:
                break   # the remaining cases are taken by the other workers
        if reached is not None:
            out.write(dumps({"_reached": sorted(reached)}) + "\n")
    return 0


# --------------------------------------------------------------------------- parent

def load_known():
    try:
        with open(KNOWN) as f:
            return json.load(f)
    except FileNotFoundError:
        return {"findings": []}


def run_check(pid, tier, seed, jobs=None, verbose=False):
    t_start = time.time()
    from . import boot
    mod = load_check(pid)
    cases = mod.gen_cases(tier, seed)
    for i, c in enumerate(cases):
        c["_i"] = i
    ncpu = os.cpu_count() or 4
    jobs = jobs or int(os.environ.get("VERIF_JOBS", min(16, ncpu)))
    jobs = max(1, min(jobs, len(cases)))
    tmp = tempfile.mkdtemp(prefix="aioftp-verif-run-")
    inconclusive = []
    results = []
    reached_all = set()
    try:
        procs = []
        cf = os.path.join(tmp, "cases.json")
        with open(cf, "w") as f:
            json.dump(cases, f)
        claim_dir = os.path.join(tmp, "claims")
        os.mkdir(claim_dir)
        for j in range(jobs):
            of = os.path.join(tmp, f"out{j}.jsonl")
            env = dict(os.environ)
            env["VERIF_CLAIM_DIR"] = claim_dir
            env["PYTHONHASHSEED"] = "0"
            env["VERIF_TIER"] = tier
            env.setdefault("PYTHONDONTWRITEBYTECODE", "1")
            p = subprocess.Popen([sys.executable, os.path.join(ROOT, "bin", "check"), pid, "--worker", cf, of],
                                 env=env, stdout=subprocess.PIPE, stderr=subprocess.STDOUT)
            procs.append((p, of))
        budget = getattr(mod, "WALL_BUDGET", {"quick": 900, "thorough": 7200})[tier]
        deadline = time.time() + budget
        for p, of in procs:
            try:
                out, _ = p.communicate(timeout=max(1, deadline - time.time()))
            except subprocess.TimeoutExpired:
                p.kill()
                out, _ = p.communicate()
                inconclusive.append(f"worker exceeded wall budget {budget}s")
            got = []
            if os.path.exists(of):
                with open(of) as f:
                    for line in f:
                        line = line.strip()
                        if line:
                            rec = json.loads(line)
                            if "_reached" in rec:
                                reached_all.update(rec["_reached"])
                            else:
                                got.append(rec)
            results += got
            if p.returncode != 0:
                tail = (out or b"").decode("utf-8", "replace")[-2000:]
                inconclusive.append(f"worker rc={p.returncode} after {len(got)} results: {tail}")
            elif verbose and out:
                sys.stdout.write(out.decode("utf-8", "replace"))
        if len(results) != len(cases) and not inconclusive:
            inconclusive.append(f"workers produced {len(results)}/{len(cases)} results")
    finally:
        shutil.rmtree(tmp, ignore_errors=True)

    results.sort(key=lambda r: r["case"]["_i"])
    monitors = {}
    sigs = set()
    samples = []
    violations = []
    extra = {}
    for r in results:
        for k, v in (r.get("monitors") or {}).items():
            monitors[k] = monitors.get(k, 0) + v
        if r.get("inconclusive"):
            inconclusive.append(f"case {r['case'].get('_i')}: {r['inconclusive']} {r.get('trace', '')[-800:]}")
        if r.get("nontrivial") and r.get("sig") is not None:
            sigs.add(r["sig"])
        for s in r.get("sigs") or []:
            sigs.add(s)
        if r.get("sample") is not None and len(samples) < 4:
            samples.append(r["sample"])
        for v in r.get("violations") or []:
            violations.append((r, v))
        for k, v in (r.get("stats") or {}).items():
            if isinstance(v, (int, float)):
                extra[k] = extra.get(k, 0) + v
            elif isinstance(v, list):
                extra.setdefault(k, [])
                for x in v:
                    if x not in extra[k] and len(extra[k]) < 64:
                        extra[k].append(x)

    anchors = getattr(mod, "ANCHOR_FUNCTIONS", [])
    anchors_missed = [fn for fn in anchors if fn not in reached_all] if reached_all else []
    required = getattr(mod, "REQUIRED_MONITORS", [])
    for name in required:
        if monitors.get(name, 0) == 0:
            inconclusive.append(f"deciding monitor {name!r} was never evaluated")

    known = load_known()
    open_keys = {(f["property"], f["key"]): f for f in known.get("findings", []) if f.get("status") == "open"}
    printed_known = set()
    unlisted = []
    for r, v in violations:
        f = open_keys.get((pid, v.get("key")))
        if f is not None:
            if v["key"] not in printed_known:
                printed_known.add(v["key"])
                print(f"KNOWN-FINDING: property={pid} {f['what']} [key={v['key']}]")
        else:
            unlisted.append((r, v))

    os.makedirs(REPLAY_DIR, exist_ok=True)
    seen_keys = {}
    for r, v in unlisted:
        k = v.get("key", "unclassified")
        seen_keys[k] = seen_keys.get(k, 0) + 1
        if seen_keys[k] > 2:
            continue
        safe = "".join(ch if ch.isalnum() or ch in "-_." else "_" for ch in k)[:80]
        path = os.path.join(REPLAY_DIR, f"{pid}-{safe}-{r['case']['_i']}.json")
        with open(path, "w") as f:
            f.write(dumps({"property": pid, "tier": tier, "seed": seed, "case": v.get("replay_case") or r["case"], "violation": v,
                           "observed": r.get("sample")}, indent=1))
        print(f"VIOLATION property={pid} replay={path}")
        print(f"  key={k} {v.get('msg')}")
    if unlisted:
        print(f"  {len(unlisted)} violating observation(s), {len(seen_keys)} distinct mechanism key(s): "
              + ", ".join(f"{k} x{n}" for k, n in sorted(seen_keys.items())))

    wall = time.time() - t_start
    cov = {
        "evaluations": len(results),
        "distinct_nontrivial": len(sigs),
        "rule": getattr(mod, "RULE", ""),
        "samples": samples or [r["case"] for r in results[:2]],
        "monitor_evaluations": monitors,
        "exhaustive": bool(getattr(mod, "EXHAUSTIVE", {}).get(tier, False)) if isinstance(getattr(mod, "EXHAUSTIVE", None), dict) else False,
        "aioftp_imported_from": boot.AIOFTP_FILE,
        "known_findings_matched": sorted(printed_known),
        "inconclusive": inconclusive[:5],
        "jobs": jobs,
        "anchor_functions_entered": [fn for fn in anchors if fn in reached_all],
        "anchor_functions_not_entered": anchors_missed,
        "aioftp_functions_entered": len(reached_all),
        "aioftp_functions_entered_list": sorted(reached_all)[:250],
    }
    cov.update(extra)
    if hasattr(mod, "explain"):
        cov["explanation"] = mod.explain(tier)
    ev = {
        "property_id": pid,
        "tier": tier,
        "seed": seed,
        "level": mod.LEVEL,
        "coverage": cov,
        "assumptions": getattr(mod, "ASSUMPTIONS", []),
        "wall_s": round(wall, 2),
        "violations": len(unlisted),
    }
    os.makedirs(EVIDENCE_DIR, exist_ok=True)
    with open(os.path.join(EVIDENCE_DIR, f"{pid}.json"), "w") as f:
        f.write(dumps(ev, indent=1))
    status = "VIOLATED" if unlisted else ("INCONCLUSIVE" if inconclusive else "HELD")
    print(f"{pid} {tier} seed={seed}: {status}; cases={len(results)} distinct_nontrivial={len(sigs)} "
          f"monitors={monitors} wall={wall:.1f}s")
    if unlisted:
        return 1
    if inconclusive:
        for m in inconclusive[:5]:
            print("INCONCLUSIVE:", m[:1500])
        return 2
    return 0


def replay(pid, path):
    mod = load_check(pid)
    with open(path) as f:
        rep = json.load(f)
    case = rep["case"]
    os.environ["VERIF_VERBOSE"] = "1"
    res = mod.run_case(case)
    print(dumps(res, indent=1)[:20000])
    if res.get("violations"):
        for v in res["violations"]:
            print(f"VIOLATION property={pid} replay={path}")
            print(f"  key={v.get('key')} {v.get('msg')}")
        return 1
    print("replay: no violation reproduced")
    return 0


def main(argv=None):
    ap = argparse.ArgumentParser()
    ap.add_argument("pid")
    ap.add_argument("--tier", default=os.environ.get("VERIF_TIER", "quick"), choices=["quick", "thorough"])
    ap.add_argument("--seed", type=int, default=int(os.environ.get("VERIF_SEED", "0")))
    ap.add_argument("--replay")
    ap.add_argument("--jobs", type=int)
    ap.add_argument("--worker", nargs=2)
    ap.add_argument("-v", action="store_true")
    a = ap.parse_args(argv)
    pid = a.pid.upper()
    if a.worker:
        return worker_main(pid, *a.worker)
    try:
        if a.replay:
            return replay(pid, a.replay)
        return run_check(pid, a.tier, a.seed, a.jobs, a.v)
    except Exception:
        # a failure of the machinery itself is never a verdict
        traceback.print_exc()
        print(f"INCONCLUSIVE: {pid} harness failure")
        return 2
